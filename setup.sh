#!/bin/bash
# Builds the engine from files on disk only (offline).
cd "$(dirname "$0")"
export GOFLAGS=-mod=mod GOPROXY=off GOSUMDB=off GOTOOLCHAIN=local
mkdir -p bin evidence out
(cd goatsym && go build -o ../bin/goatsym .) || exit 1
echo "goatsym built"
