package main

import (
	"fmt"
	"go/types"
	"strings"

	"golang.org/x/tools/go/ssa"
)

// resolveCall evaluates callee and arguments of a call (pure).
func (e *Engine) resolveCall(s *State, fr *Frame, c *ssa.CallCommon) (*FuncV, []Value) {
	var fv *FuncV
	var args []Value
	if c.IsInvoke() {
		recv := e.operand(fr, c.Value).(Iface)
		if recv.t == nil {
			e.gopanic("runtime error: invalid memory address or nil pointer dereference (method call on nil interface)")
		}
		fn := e.lookupMethod(recv.t, c.Method)
		if fn == nil {
			panic(engineErr(fmt.Sprintf("method %s not found on %s", c.Method.Name(), recv.t)))
		}
		fv = &FuncV{fn: fn}
		args = append(args, recv.v)
	} else {
		v := e.operand(fr, c.Value)
		f, ok := v.(*FuncV)
		if !ok {
			panic(engineErr(fmt.Sprintf("call of non-function %T", v)))
		}
		if f == nil {
			e.gopanic("runtime error: invalid memory address or nil pointer dereference (call of nil func)")
		}
		fv = f
	}
	for _, a := range c.Args {
		args = append(args, e.operand(fr, a))
	}
	return fv, args
}

func (e *Engine) lookupMethod(t types.Type, m *types.Func) *ssa.Function {
	key := methodKey{e.typeID(t), m.Id()}
	if fn, ok := e.methodCache[key]; ok {
		return fn
	}
	ms := e.p.prog.MethodSets.MethodSet(t)
	sel := ms.Lookup(m.Pkg(), m.Name())
	var fn *ssa.Function
	if sel != nil {
		fn = e.p.prog.MethodValue(sel)
	}
	e.methodCache[key] = fn
	return fn
}

type methodKey struct {
	t  int
	id string
}

// invokeMethod: find method by name on a dynamic type (used by native models)
func (e *Engine) methodByName(t types.Type, name string) *ssa.Function {
	ms := e.p.prog.MethodSets.MethodSet(t)
	for i := 0; i < ms.Len(); i++ {
		sel := ms.At(i)
		if sel.Obj().Name() == name {
			return e.p.prog.MethodValue(sel)
		}
	}
	return nil
}

// doCall performs the call for the instruction at the top frame's ip.
// resultTo: the ssa.Value receiving the result (nil for defer/go).
func (e *Engine) doCall(s *State, gi int, fv *FuncV, args []Value, kind retKind) {
	g := s.wg(gi)
	if fv.builtin != nil {
		res := e.callBuiltin(s, gi, fv.builtin, args)
		e.finishCall(s, gi, kind, res)
		return
	}
	if fv.native != "" {
		e.callNativeClosure(s, gi, fv, args, kind)
		return
	}
	fn := fv.fn
	if skipInitCall(fn) {
		e.finishCall(s, gi, kind, nil)
		return
	}
	fi := e.fnInfo(fn)
	if nat := e.nativeFor(fi); nat != nil {
		nat(e, s, gi, fi, args, kind)
		return
	}
	if fn.Blocks == nil {
		unsup("call of external function %s", fn.String())
	}
	if len(g.frames) > 400 {
		unsup("call depth exceeded in %s", fn.String())
	}
	e.pushFrame(s, g, fi, args, fv.env, kind)
}

func (e *Engine) pushFrame(s *State, g *G, fi *FnInfo, args []Value, env []Value, kind retKind) {
	nf := &Frame{gen: s.gen, fi: fi, regs: make([]Value, fi.nregs), ret: kind, prev: -1}
	if len(args) != len(fi.params) {
		panic(engineErr(fmt.Sprintf("call %s: %d args for %d params", fi.name, len(args), len(fi.params))))
	}
	for i, a := range args {
		nf.regs[fi.params[i]] = a
	}
	for i, fvv := range env {
		nf.regs[fi.fvs[i]] = fvv
	}
	g.frames = append(g.frames, nf)
	fi.covered[0] = true
}

// finishCall delivers the result of a completed call to the (now top) caller frame.
func (e *Engine) finishCall(s *State, gi int, kind retKind, res Value) {
	g := s.wg(gi)
	switch kind {
	case retNormal:
		fr := s.wtop(g)
		instr := fr.fi.fn.Blocks[fr.block].Instrs[fr.ip]
		if call, ok := instr.(*ssa.Call); ok {
			e.setReg(fr, call, res)
		}
		fr.ip++
	case retDiscard:
		fr := s.wtop(g)
		fr.ip++
	case retDefer:
		// the frame below is running its defers; nothing to deliver; do not advance ip.
	case retGo, retInit:
		// goroutine finished
		if len(g.frames) == 0 {
			g.done = true
		}
	}
}

// doReturn pops the top frame and delivers results.
func (e *Engine) doReturn(s *State, gi int, res Value) {
	g := s.wg(gi)
	top := g.frames[len(g.frames)-1]
	kind := top.ret
	g.frames = g.frames[:len(g.frames)-1]
	if len(g.frames) == 0 {
		g.done = true
		return
	}
	e.finishCall(s, gi, kind, res)
}

// raisePanic starts panic propagation in goroutine gi.
func (e *Engine) raisePanic(s *State, gi int, val Value, msg, site string) {
	g := s.wg(gi)
	g.panic = &PanicState{val: val, msg: msg, site: site}
	if len(g.frames) == 0 {
		g.done = true
		e.uncaughtPanic(s, gi, g)
		return
	}
	fr := s.wtop(g)
	fr.panicking = true
}

// unwindStep performs one action of panic unwinding / post-recovery defer running
// for the top frame (which has panicking or recovered set).
func (e *Engine) unwindStep(s *State, gi int) {
	g := s.wg(gi)
	fr := s.wtop(g)
	if fr.panicking && g.panic == nil {
		fr.panicking = false
		fr.recovered = true
	}
	if len(fr.defers) > 0 {
		d := fr.defers[len(fr.defers)-1]
		fr.defers = fr.defers[:len(fr.defers)-1]
		e.doCall(s, gi, d.fn, d.args, retDefer)
		return
	}
	if fr.recovered {
		fr.recovered = false
		if rb := fr.fi.fn.Recover; rb != nil {
			fr.prev = fr.block
			fr.block = rb.Index
			fr.ip = 0
			fr.fi.covered[rb.Index] = true
			return
		}
		var res Value
		rs := fr.fi.fn.Signature.Results()
		switch rs.Len() {
		case 0:
		case 1:
			res = e.zero(rs.At(0).Type())
		default:
			res = e.zero(rs)
		}
		e.doReturn(s, gi, res)
		return
	}
	// panicking with no defers left: pop the frame
	g.frames = g.frames[:len(g.frames)-1]
	if len(g.frames) == 0 {
		g.done = true
		e.uncaughtPanic(s, gi, g)
		return
	}
	below := s.wtop(g)
	below.panicking = true
}

func (e *Engine) uncaughtPanic(s *State, gi int, g *G) {
	p := g.panic
	msg := p.msg
	if strings.HasPrefix(msg, "vf-abort:") {
		return
	}
	e.report(s, "crash", p.site, p.site, fmt.Sprintf("uncaught panic in goroutine %s (%s): %s", g.id, g.name, msg), nil, nil)
	panic(pathEnd{"crash"})
}

// builtins ------------------------------------------------------------------------------

func (e *Engine) callBuiltin(s *State, gi int, b *ssa.Builtin, args []Value) Value {
	ts := e.ts
	switch b.Name() {
	case "len":
		switch x := args[0].(type) {
		case string, *SymStr:
			return ts.Const(64, uint64(strLen(x)))
		case Slice:
			return ts.Const(64, uint64(x.ln))
		case MapV:
			if x.obj == 0 {
				return ts.Const(64, 0)
			}
			e.raceMap(s, gi, x.obj, false, nil)
			return ts.Const(64, uint64(len(e.obj(s, x.obj).m.keys)))
		case ChanV:
			if x.obj == 0 {
				return ts.Const(64, 0)
			}
			return ts.Const(64, uint64(len(e.obj(s, x.obj).ch.buf)))
		case *ArrayV:
			return ts.Const(64, uint64(len(x.e)))
		case Ptr:
			pt := b.Type().(*types.Signature).Params().At(0).Type()
			return ts.Const(64, uint64(pt.Underlying().(*types.Pointer).Elem().Underlying().(*types.Array).Len()))
		}
	case "cap":
		switch x := args[0].(type) {
		case Slice:
			return ts.Const(64, uint64(x.cap))
		case ChanV:
			if x.obj == 0 {
				return ts.Const(64, 0)
			}
			return ts.Const(64, uint64(e.obj(s, x.obj).ch.cap))
		case *ArrayV:
			return ts.Const(64, uint64(len(x.e)))
		}
	case "append":
		return e.builtinAppend(s, b, args)
	case "copy":
		dst := args[0].(Slice)
		n := 0
		switch src := args[1].(type) {
		case Slice:
			n = dst.ln
			if src.ln < n {
				n = src.ln
			}
			if n > 0 {
				sa := e.sliceArr(s, src)
				tmp := make([]Value, n)
				copy(tmp, sa.e[src.off:src.off+n])
				e.writeElems(s, dst, 0, tmp)
			}
		case string, *SymStr:
			bs := e.strBytes(src)
			n = dst.ln
			if len(bs) < n {
				n = len(bs)
			}
			tmp := make([]Value, n)
			for i := 0; i < n; i++ {
				tmp[i] = bs[i]
			}
			if n > 0 {
				e.writeElems(s, dst, 0, tmp)
			}
		}
		return ts.Const(64, uint64(n))
	case "delete":
		m := args[0].(MapV)
		if m.obj == 0 {
			return nil
		}
		e.raceMap(s, gi, m.obj, true, nil)
		i := e.mapFind(s, e.obj(s, m.obj).m, args[1])
		if i >= 0 {
			o := e.wobj(s, m.obj)
			o.m.keys = append(o.m.keys[:i:i], o.m.keys[i+1:]...)
			o.m.vals = append(o.m.vals[:i:i], o.m.vals[i+1:]...)
		}
		return nil
	case "print", "println":
		return nil
	case "min", "max":
		r := args[0].(*Term)
		_, signed, _ := intWidth(b.Type().(*types.Signature).Params().At(0).Type())
		for _, a := range args[1:] {
			x := a.(*Term)
			var lt *Term
			if signed {
				lt = ts.Cmp(OpSlt, x, r)
			} else {
				lt = ts.Cmp(OpUlt, x, r)
			}
			if b.Name() == "max" {
				lt = ts.Not(ts.Or(lt, ts.Eq(x, r)))
			}
			r = ts.Ite(lt, x, r)
		}
		return r
	case "recover":
		g := s.wg(gi)
		// valid when called directly by a deferred function while the frame below is panicking
		n := len(g.frames)
		if g.panic != nil && n >= 2 && g.frames[n-1].ret == retDefer && g.frames[n-2].panicking {
			v := g.panic.val
			g.panic = nil
			return v
		}
		return Iface{}
	case "clear":
		switch x := args[0].(type) {
		case MapV:
			if x.obj != 0 {
				o := e.wobj(s, x.obj)
				o.m.keys, o.m.vals = nil, nil
			}
			return nil
		case Slice:
			if sig, ok := b.Type().(*types.Signature); ok && sig.Params().Len() == 1 {
				if st, ok := sig.Params().At(0).Type().Underlying().(*types.Slice); ok {
					for i := 0; i < x.ln; i++ {
						e.store(s, Ptr{obj: x.obj, path: appendPath(x.path, x.off+i)}, e.zero(st.Elem()))
					}
					return nil
				}
			}
		}
	case "ssa:wrapnilchk":
		p, ok := args[0].(Ptr)
		if ok && p.obj == 0 {
			e.gopanic(fmt.Sprintf("value method %s.%s called using nil pointer", showArg(args[1]), showArg(args[2])))
		}
		return args[0]
	}
	unsup("builtin %s on %T", b.Name(), args[0])
	return nil
}

func showArg(v Value) string {
	if s, ok := v.(string); ok {
		return s
	}
	return "?"
}

func (e *Engine) writeElems(s *State, dst Slice, at int, vals []Value) {
	o := e.wobj(s, dst.obj)
	arr := nav(o.v, dst.path).(*ArrayV)
	el := make([]Value, len(arr.e))
	copy(el, arr.e)
	copy(el[dst.off+at:], vals)
	o.v = update(o.v, dst.path, &ArrayV{el})
}

func (e *Engine) builtinAppend(s *State, b *ssa.Builtin, args []Value) Value {
	dst := args[0].(Slice)
	var add []Value
	switch src := args[1].(type) {
	case Slice:
		if src.ln > 0 {
			sa := e.sliceArr(s, src)
			add = append(add, sa.e[src.off:src.off+src.ln]...)
		}
	case string, *SymStr:
		for _, t := range e.strBytes(src) {
			add = append(add, t)
		}
	}
	if len(add) == 0 {
		return dst
	}
	if dst.obj != 0 && dst.ln+len(add) <= dst.cap {
		e.writeElems(s, dst, dst.ln, add)
		return Slice{obj: dst.obj, path: dst.path, off: dst.off, ln: dst.ln + len(add), cap: dst.cap}
	}
	// grow: new backing array (capacity: doubling, at least needed)
	need := dst.ln + len(add)
	ncap := dst.cap * 2
	if ncap < need {
		ncap = need
	}
	el := make([]Value, ncap)
	if dst.obj != 0 && dst.ln > 0 {
		copy(el, e.sliceArr(s, dst).e[dst.off:dst.off+dst.ln])
	}
	copy(el[dst.ln:], add)
	elemT := b.Type().(*types.Signature).Params().At(0).Type().Underlying().(*types.Slice).Elem()
	z := e.zero(elemT)
	for i := need; i < ncap; i++ {
		el[i] = z
	}
	id := s.alloc(&Object{v: &ArrayV{el}, label: "append"})
	return Slice{obj: id, ln: need, cap: ncap}
}
