package main

import (
	"encoding/json"
	"fmt"
	"os"
	"sort"
	"strings"
	"time"

	"golang.org/x/tools/go/ssa"
)

// packages whose init functions are executed (concretely) before a harness runs
var initAllow = map[string]bool{
	"time":                                   true,
	"sync":                                   true,
	"io":                                     true,
	"strings":                                true,
	"bytes":                                  true,
	"unicode":                                true,
	"sort":                                   true,
	"slices":                                 true,
	"maps":                                   true,
	"math":                                   true,
	"context":                                true,
	"strconv":                                true,
	"unicode/utf8":                           true,
	"math/bits":                              true,
	"encoding/base64":                        true,
	"encoding/binary":                        true,
	"internal/bytealg":                       true,
	"internal/stringslite":                   true,
	"google.golang.org/grpc/codes":           true,
	"google.golang.org/grpc/metadata":        true,
	"google.golang.org/grpc/status":          true,
	"google.golang.org/grpc/internal/status": true,
	"google.golang.org/grpc/mem":             true,
	"google.golang.org/genproto/googleapis/rpc/status": true,
	"google.golang.org/protobuf/types/known/anypb":     true,
	"golang.org/x/sync/errgroup":                       true,
	"github.com/pkg/errors":                            true,
	"github.com/avos-io/goat":                          true,
	"github.com/avos-io/goat/internal":                 true,
	"github.com/avos-io/goat/internal/client":          true,
	"github.com/avos-io/goat/internal/server":          true,
	"github.com/avos-io/goat/gen/goatorepo":            true,
	"github.com/avos-io/goat/gen/testproto":            true,
	"github.com/avos-io/goat/types":                    true,
}

func isPkgInit(fn *ssa.Function) bool {
	return fn.Name() == "init" && fn.Synthetic == "package initializer"
}

func skipInitCall(fn *ssa.Function) bool {
	if isPkgInit(fn) {
		return !initAllow[fn.Pkg.Pkg.Path()]
	}
	n := fn.Name()
	if strings.HasPrefix(n, "file_") && strings.HasSuffix(n, "_init") {
		return true
	}
	return false
}

func (e *Engine) buildInitState() error {
	s := &State{gen: e.newGen(), heap: []*Object{nil}, gobjs: map[int]*Object{}, cur: -1}
	for i := range e.logEventObj {
		e.logEventObj[i] = s.alloc(&Object{v: e.ts.Const(8, uint64(i)), label: "zerolog.Event"})
	}
	e.bgCtx = s.alloc(&Object{ctx: &CtxData{err: Iface{}, cause: Iface{}}, label: "ctx.Background"})
	e.inInit = true
	defer func() { e.inInit = false }()
	var order []string
	for p := range initAllow {
		order = append(order, p)
	}
	sort.Strings(order)
	// run goat's root init last; the init functions call their (allowed) dependencies themselves
	for _, path := range order {
		pkg := e.p.pkgs[path]
		if pkg == nil {
			continue
		}
		initFn := pkg.Func("init")
		if initFn == nil {
			continue
		}
		g := &G{gen: s.gen, id: "init", harness: true, name: "init " + path}
		s.gs = []*G{g}
		e.pushFrame(s, g, e.fnInfo(initFn), nil, nil, retInit)
		s.cur = 0
		s.steps = 0
		x := &explorer{e: e}
		x.runPath(s)
		if !s.gs[0].done || len(x.stack) > 0 || len(e.incomplete) > 0 || len(e.violOrder) > 0 {
			msg := fmt.Sprintf("package init of %s did not complete: incomplete=%v stack=%d", path, e.incomplete, len(x.stack))
			for _, v := range e.violOrder {
				msg += "; " + e.violations[v].Msg
			}
			return fmt.Errorf("%s", msg)
		}
	}
	s.gs = nil
	s.cur = -1
	s.steps = 0
	s.events = nil
	s.trail = nil
	s.gdirty = nil
	e.initState = s
	e.stats = Stats{}
	e.visited = map[stateKey]bool{}
	return nil
}

type RunResult struct {
	Harness     string                   `json:"harness"`
	Params      map[string]int           `json:"params"`
	ParamsUsed  map[string]int           `json:"params_defaulted"`
	Status      string                   `json:"status"` // PASS | VIOLATION | INCOMPLETE | VACUOUS | ERROR
	Violations  []*Violation             `json:"violations"`
	Incomplete  []string                 `json:"incomplete"`
	Reach       map[string]int           `json:"reach"`
	Stats       Stats                    `json:"stats"`
	Solver      SolverStats              `json:"solver"`
	Functions   []FnCov                  `json:"functions_encoded"`
	WallS       float64                  `json:"wall_s"`
	Samples     []map[string]interface{} `json:"samples"`
	AssumeFails map[string]int           `json:"assume_infeasible,omitempty"`
	Error       string                   `json:"error,omitempty"`
	Degraded    []string                 `json:"oracle_degraded,omitempty"`
	sampleCex   []*CexFile
}

type FnCov struct {
	Name    string `json:"name"`
	Blocks  int    `json:"blocks"`
	Covered int    `json:"covered"`
}

func (e *Engine) coverage() []FnCov {
	var out []FnCov
	for _, fi := range e.fnInfos {
		if len(fi.covered) == 0 || fi.isHarness {
			continue
		}
		if !strings.HasPrefix(fi.pkgPath, "github.com/avos-io/goat") {
			continue
		}
		if strings.Contains(fi.pkgPath, "/gen/") {
			continue
		}
		out = append(out, FnCov{Name: shortFn(fi.name), Blocks: len(fi.fn.Blocks), Covered: len(fi.covered)})
	}
	sort.Slice(out, func(i, j int) bool { return out[i].Name < out[j].Name })
	return out
}

func (e *Engine) runHarness(name string) *RunResult {
	t0 := time.Now()
	res := &RunResult{Harness: name, Params: e.params, Reach: map[string]int{}}
	fn := e.p.harness[name]
	if fn == nil {
		if f := e.p.stale[name]; f != "" {
			res.Status = "STALE"
			res.Error = "harness file " + f + " does not compile against the current tree (internal identifiers it reaches into were renamed or retyped)"
			return res
		}
		res.Status = "ERROR"
		res.Error = "no such harness: " + name
		return res
	}
	e.harness = name
	for _, fi := range e.fnInfos {
		fi.covered = map[int]bool{}
	}
	s := e.clone(e.initState)
	g := &G{gen: s.gen, id: "0", harness: true, name: name}
	s.gs = []*G{g}
	e.pushFrame(s, g, e.fnInfo(fn), nil, nil, retGo)
	s.cur = 0
	e.raceInit(s)
	func() {
		defer func() {
			if r := recover(); r != nil {
				if ee, ok := r.(engineErr); ok {
					res.Error = "engine error: " + string(ee)
					return
				}
				panic(r)
			}
		}()
		e.explore(s)
	}()
	res.WallS = time.Since(t0).Seconds()
	res.Stats = e.stats
	res.Solver = e.solver.Stats
	res.Incomplete = e.incomplete
	res.Reach = e.reach
	res.Functions = e.coverage()
	res.ParamsUsed = e.paramsUsed
	res.AssumeFails = e.assumeFailed
	res.sampleCex = e.sampleCex
	for _, sig := range e.violOrder {
		res.Violations = append(res.Violations, e.violations[sig])
	}
	switch {
	case res.Error != "":
		res.Status = "ERROR"
	case len(res.Violations) > 0:
		res.Status = "VIOLATION"
	case len(res.Incomplete) > 0:
		res.Status = "INCOMPLETE"
	default:
		res.Status = "PASS"
	}
	return res
}

func writeJSON(path string, v interface{}) error {
	b, err := json.MarshalIndent(v, "", " ")
	if err != nil {
		return err
	}
	if path == "-" {
		_, err = os.Stdout.Write(append(b, '\n'))
		return err
	}
	return os.WriteFile(path, append(b, '\n'), 0o644)
}
