package main

import (
	"crypto/sha256"
	"encoding/binary"
	"fmt"
	"go/types"
	"sort"

	"golang.org/x/tools/go/ssa"
)

type MapData struct {
	keys []Value
	vals []Value
}

type ChanData struct {
	cap    int
	buf    []Value
	closed bool
}

// CtxData is the native model of a context.Context.
type CtxData struct {
	parent      int  // parent context object (0: Background)
	done        int  // chan object closed on cancellation
	isDone      bool // cancelled / expired
	err         Value
	cause       Value
	hasDeadline bool
	deadline    *Term // BV64 ns
	armed       bool  // expiry transition may fire
	key, val    Value // WithValue
	isValue     bool
	children    []int
	afterFuncs  []*FuncV // context.AfterFunc registrations (nil entries = stopped)
	site        string
}

type Object struct {
	gen   uint32
	v     Value
	m     *MapData
	ch    *ChanData
	ctx   *CtxData
	label string
	typ   types.Type // static element type of an ssa.Alloc (nil for other objects); not part of the state hash
}

type Deferred struct {
	fn   *FuncV
	args []Value
	// invoke-mode deferred calls are resolved at defer time into fn/args
}

type retKind uint8

const (
	retNormal retKind = iota
	retDefer           // deferred call run by RunDefers or during panic unwinding
	retGo              // goroutine entry
	retDiscard         // native-initiated call whose result is dropped, caller advances
	retInit            // package init
)

type Frame struct {
	gen       uint32
	fi        *FnInfo
	block     int
	ip        int
	prev      int
	regs      []Value
	defers    []Deferred
	ret       retKind
	panicking bool // this frame is unwinding because of a panic
	recovered bool
	runningDefers bool
}

type PanicState struct {
	val  Value // Iface
	site string
	msg  string
}

type G struct {
	gen       uint32
	id        string
	frames    []*Frame
	done      bool
	harness   bool
	nspawn    int
	nnondet   int
	panic     *PanicState
	name      string
	// selIndex caches nothing; pending op is recomputed from the top frame
	woken     bool // completed a rendezvous as passive partner; must finish its visible instr bookkeeping
}

type PCNode struct {
	parent *PCNode
	t      *Term
	id     int
	depth  int
}

type TrailNode struct {
	parent *TrailNode
	kind   string
	choice int
	arity  int
	info   string
}

type State struct {
	gen        uint32
	heap       []*Object
	gobjs      map[int]*Object // globals (negative ids), lazily materialised
	gdirty     []int
	gs         []*G
	pc         *PCNode
	trail      *TrailNode
	cur        int // goroutine running mid-transition; -1 none
	dec        []int
	decPos     int
	quiesce    []*FuncV
	steps      int
	sched      int
	clock      *Term
	nclock     int
	timers     bool
	frozen     bool
	timersMap  map[int]int
	inQuiesce  bool
	forced     *Trans
	model      Model // a model of pc (nil: unknown)
	blocked    []string
	race       *raceInfo
	events     *EventNode
	nevents    int
}

// IterV is the state of a range iterator (immutable; stored in a heap object).
type IterV struct {
	m    int     // map object (0 for strings)
	keys []Value // remaining keys (maps)
	str  Value   // string being ranged over
	pos  int
}

type EventNode struct {
	parent *EventNode
	text   string
}

func (e *Engine) newGen() uint32 {
	e.genCtr++
	return e.genCtr
}

func (e *Engine) clone(s *State) *State {
	c := *s
	c.heap = make([]*Object, len(s.heap), len(s.heap)+16)
	copy(c.heap, s.heap)
	c.gobjs = make(map[int]*Object, len(s.gobjs))
	for k, v := range s.gobjs {
		c.gobjs[k] = v
	}
	c.gdirty = append([]int(nil), s.gdirty...)
	c.gs = make([]*G, len(s.gs))
	copy(c.gs, s.gs)
	c.dec = nil
	c.quiesce = append([]*FuncV(nil), s.quiesce...)
	if s.race != nil {
		c.race = s.race.clone()
	}
	if s.timersMap != nil {
		c.timersMap = make(map[int]int, len(s.timersMap))
		for k, v := range s.timersMap {
			c.timersMap[k] = v
		}
	}
	s.gen = e.newGen()
	c.gen = e.newGen()
	e.stats.Clones++
	return &c
}

// heap access ---------------------------------------------------------------

func (s *State) objOpt(id int) *Object {
	if id > 0 && id < len(s.heap) {
		return s.heap[id]
	}
	if id < 0 {
		return s.gobjs[id]
	}
	return nil
}

func (e *Engine) obj(s *State, id int) *Object {
	if id > 0 {
		return s.heap[id]
	}
	if id == 0 {
		panic(engineErr("nil object access"))
	}
	if o, ok := s.gobjs[id]; ok {
		return o
	}
	g := e.globalByID[-id]
	o := &Object{gen: s.gen, v: e.zero(g.Type().(*types.Pointer).Elem()), label: g.String()}
	s.gobjs[id] = o
	return o
}

func (e *Engine) wobj(s *State, id int) *Object {
	o := e.obj(s, id)
	if o.gen == s.gen {
		return o
	}
	c := *o
	c.gen = s.gen
	if o.m != nil {
		m := *o.m
		m.keys = append([]Value(nil), o.m.keys...)
		m.vals = append([]Value(nil), o.m.vals...)
		c.m = &m
	}
	if o.ch != nil {
		ch := *o.ch
		ch.buf = append([]Value(nil), o.ch.buf...)
		c.ch = &ch
	}
	if o.ctx != nil {
		cx := *o.ctx
		cx.children = append([]int(nil), o.ctx.children...)
		cx.afterFuncs = append([]*FuncV(nil), o.ctx.afterFuncs...)
		c.ctx = &cx
	}
	if id > 0 {
		s.heap[id] = &c
	} else {
		s.gobjs[id] = &c
		found := false
		for _, d := range s.gdirty {
			if d == id {
				found = true
			}
		}
		if !found {
			s.gdirty = append(s.gdirty, id)
			sort.Ints(s.gdirty)
		}
	}
	return &c
}

func (s *State) alloc(o *Object) int {
	o.gen = s.gen
	s.heap = append(s.heap, o)
	return len(s.heap) - 1
}

func nav(v Value, path []int) Value {
	for _, p := range path {
		switch x := v.(type) {
		case *StructV:
			v = x.f[p]
		case *ArrayV:
			if p < 0 || p >= len(x.e) {
				panic(engineErr(fmt.Sprintf("nav: index %d out of %d", p, len(x.e))))
			}
			v = x.e[p]
		default:
			panic(engineErr(fmt.Sprintf("nav: cannot navigate %T", v)))
		}
	}
	return v
}

func update(v Value, path []int, nv Value) Value {
	if len(path) == 0 {
		return nv
	}
	p := path[0]
	switch x := v.(type) {
	case *StructV:
		f := make([]Value, len(x.f))
		copy(f, x.f)
		f[p] = update(x.f[p], path[1:], nv)
		return &StructV{f}
	case *ArrayV:
		el := make([]Value, len(x.e))
		copy(el, x.e)
		el[p] = update(x.e[p], path[1:], nv)
		return &ArrayV{el}
	}
	panic(engineErr(fmt.Sprintf("update: cannot navigate %T", v)))
}

func (e *Engine) load(s *State, p Ptr) Value {
	if p.obj == 0 {
		panic(goPanic{"runtime error: invalid memory address or nil pointer dereference"})
	}
	if p.obj < 0 && e.uninitGlobal[-p.obj] {
		g := e.globalByID[-p.obj]
		unsup("read of %s.%s, which is initialised by a package init the engine does not execute", g.Pkg.Pkg.Path(), g.Name())
	}
	o := e.obj(s, p.obj)
	v := nav(o.v, p.path)
	if p.sym != nil {
		arr, ok := v.(*ArrayV)
		if !ok {
			panic(engineErr("symbolic index into non-array"))
		}
		return e.selectElem(arr.e, p.sym)
	}
	return v
}

func (e *Engine) store(s *State, p Ptr, v Value) {
	if p.obj == 0 {
		panic(goPanic{"runtime error: invalid memory address or nil pointer dereference"})
	}
	o := e.wobj(s, p.obj)
	if p.sym != nil {
		arrV := nav(o.v, p.path).(*ArrayV)
		el := make([]Value, len(arrV.e))
		nt, ok := v.(*Term)
		if !ok {
			unsup("store of non-scalar through symbolic index")
		}
		for i := range el {
			c := e.ts.Eq(p.sym, e.ts.Const(p.sym.w, uint64(i)))
			el[i] = e.ts.Ite(c, nt, arrV.e[i].(*Term))
		}
		o.v = update(o.v, p.path, &ArrayV{el})
		return
	}
	o.v = update(o.v, p.path, v)
}

// selectElem builds elems[idx] for a symbolic idx (in range is checked by the caller).
func (e *Engine) selectElem(elems []Value, idx *Term) Value {
	if len(elems) == 0 {
		panic(engineErr("select from empty array"))
	}
	allConst := true
	w := 0
	for _, el := range elems {
		t, ok := el.(*Term)
		if !ok {
			unsup("symbolic index into array of non-scalars")
		}
		w = t.w
		if !t.IsConst() {
			allConst = false
		}
	}
	if allConst && w > 0 && len(elems) > 4 {
		vals := make([]uint64, len(elems))
		for i, el := range elems {
			vals[i] = el.(*Term).val
		}
		iw := idx.w
		ix := idx
		// narrow index when possible
		if um := idx.umax(); um < 256 && iw > 8 {
			iw = 8
			ix = e.ts.Extract(7, 0, idx)
		}
		return e.ts.Select(e.ts.TableOf(w, iw, vals), ix)
	}
	r := elems[len(elems)-1].(*Term)
	for i := len(elems) - 2; i >= 0; i-- {
		c := e.ts.Eq(idx, e.ts.Const(idx.w, uint64(i)))
		r = e.ts.Ite(c, elems[i].(*Term), r)
	}
	return r
}

// goroutines / frames ---------------------------------------------------------

func (s *State) wg(i int) *G {
	g := s.gs[i]
	if g.gen == s.gen {
		return g
	}
	c := *g
	c.gen = s.gen
	c.frames = make([]*Frame, len(g.frames), len(g.frames)+4)
	copy(c.frames, g.frames)
	s.gs[i] = &c
	return &c
}

func (s *State) wtop(g *G) *Frame {
	// g must be writable
	n := len(g.frames) - 1
	f := g.frames[n]
	if f.gen == s.gen {
		return f
	}
	c := *f
	c.gen = s.gen
	c.regs = make([]Value, len(f.regs))
	copy(c.regs, f.regs)
	c.defers = append([]Deferred(nil), f.defers...)
	g.frames[n] = &c
	return &c
}

func (s *State) wframe(g *G, n int) *Frame {
	f := g.frames[n]
	if f.gen == s.gen {
		return f
	}
	c := *f
	c.gen = s.gen
	c.regs = make([]Value, len(f.regs))
	copy(c.regs, f.regs)
	c.defers = append([]Deferred(nil), f.defers...)
	g.frames[n] = &c
	return &c
}

// path condition --------------------------------------------------------------

func (e *Engine) pcAdd(s *State, t *Term) {
	if t.IsTrue() {
		return
	}
	if s.model != nil {
		memo := map[int]uint64{}
		if e.ts.Eval(t, s.model, memo) != 1 {
			s.model = nil
		}
	}
	key := [2]int{0, t.id}
	if s.pc != nil {
		key[0] = s.pc.id
	}
	if n, ok := e.pcNodes[key]; ok {
		s.pc = n
		return
	}
	n := &PCNode{parent: s.pc, t: t, id: len(e.pcNodes) + 1}
	if s.pc != nil {
		n.depth = s.pc.depth + 1
	}
	e.pcNodes[key] = n
	s.pc = n
}

func (pc *PCNode) terms() []*Term {
	var out []*Term
	for n := pc; n != nil; n = n.parent {
		out = append(out, n.t)
	}
	return out
}

func (pc *PCNode) has(t *Term) bool {
	for n := pc; n != nil; n = n.parent {
		if n.t == t {
			return true
		}
	}
	return false
}

func (s *State) pcID() int {
	if s.pc == nil {
		return 0
	}
	return s.pc.id
}

func (s *State) addTrail(kind string, choice, arity int, info string) {
	s.trail = &TrailNode{parent: s.trail, kind: kind, choice: choice, arity: arity, info: info}
}

func (s *State) trailList() []*TrailNode {
	var out []*TrailNode
	for n := s.trail; n != nil; n = n.parent {
		out = append(out, n)
	}
	for i, j := 0, len(out)-1; i < j; i, j = i+1, j-1 {
		out[i], out[j] = out[j], out[i]
	}
	return out
}

func (s *State) event(text string) {
	s.events = &EventNode{parent: s.events, text: text}
	s.nevents++
}

func (s *State) eventList() []string {
	var out []string
	for n := s.events; n != nil; n = n.parent {
		out = append(out, n.text)
	}
	for i, j := 0, len(out)-1; i < j; i, j = i+1, j-1 {
		out[i], out[j] = out[j], out[i]
	}
	return out
}

// canonical state hashing -------------------------------------------------------

type hasher struct {
	e    *Engine
	s    *State
	buf  []byte
	num  map[int]int // object id -> canonical number
	todo []int
	real bool // use real object ids (symmetry detection)
}

func (h *hasher) u(x uint64) {
	var b [8]byte
	binary.LittleEndian.PutUint64(b[:], x)
	h.buf = append(h.buf, b[:]...)
}
func (h *hasher) b(x byte) { h.buf = append(h.buf, x) }
func (h *hasher) str(s string) {
	h.u(uint64(len(s)))
	h.buf = append(h.buf, s...)
}

func (h *hasher) ref(id int) {
	if id == 0 {
		h.u(0)
		return
	}
	if h.real {
		h.u(uint64(int64(id)))
		return
	}
	if id < 0 {
		h.u(uint64(int64(id)))
		return
	}
	n, ok := h.num[id]
	if !ok {
		n = len(h.num) + 1
		h.num[id] = n
		h.todo = append(h.todo, id)
	}
	h.u(uint64(n))
}

func (h *hasher) val(v Value) {
	switch x := v.(type) {
	case nil:
		h.b(0)
	case *Term:
		h.b(1)
		h.u(x.h)
	case float64:
		h.b(2)
		h.str(fmt.Sprint(x))
	case string:
		h.b(3)
		h.str(x)
	case *SymStr:
		h.b(4)
		h.u(uint64(len(x.b)))
		for _, t := range x.b {
			h.u(t.h)
		}
	case Ptr:
		h.b(5)
		h.ref(x.obj)
		h.u(uint64(len(x.path)))
		for _, p := range x.path {
			h.u(uint64(p))
		}
		if x.sym != nil {
			h.u(x.sym.h)
		}
	case Slice:
		h.b(6)
		h.ref(x.obj)
		h.u(uint64(len(x.path)))
		for _, p := range x.path {
			h.u(uint64(p))
		}
		h.u(uint64(x.off))
		h.u(uint64(x.ln))
		h.u(uint64(x.cap))
	case MapV:
		h.b(7)
		h.ref(x.obj)
	case ChanV:
		h.b(8)
		h.ref(x.obj)
	case *FuncV:
		h.b(9)
		if x == nil {
			h.b(0)
			return
		}
		if x.fn != nil {
			h.u(uint64(h.e.fnID(x.fn)))
		} else if x.builtin != nil {
			h.str(x.builtin.Name())
		} else {
			h.str(x.native)
			h.val(x.data)
		}
		h.u(uint64(len(x.env)))
		for _, ev := range x.env {
			h.val(ev)
		}
	case Iface:
		h.b(10)
		if x.t == nil {
			h.b(0)
			return
		}
		h.u(uint64(h.e.typeID(x.t)))
		h.val(x.v)
	case *StructV:
		h.b(11)
		for _, f := range x.f {
			h.val(f)
		}
	case *ArrayV:
		h.b(12)
		h.u(uint64(len(x.e)))
		for _, f := range x.e {
			h.val(f)
		}
	case Tuple:
		h.b(13)
		for _, f := range x {
			h.val(f)
		}
	case *IterV:
		h.b(14)
		h.ref(x.m)
		h.u(uint64(len(x.keys)))
		for _, k := range x.keys {
			h.val(k)
		}
		if x.str != nil {
			h.val(x.str)
		}
		h.u(uint64(x.pos))
	default:
		panic(engineErr(fmt.Sprintf("hash: unsupported value %T", v)))
	}
}

func (h *hasher) object(o *Object) {
	switch {
	case o.m != nil:
		h.b(20)
		h.u(uint64(len(o.m.keys)))
		for i := range o.m.keys {
			h.val(o.m.keys[i])
			h.val(o.m.vals[i])
		}
	case o.ch != nil:
		h.b(21)
		h.u(uint64(o.ch.cap))
		if o.ch.closed {
			h.b(1)
		} else {
			h.b(0)
		}
		h.u(uint64(len(o.ch.buf)))
		for _, v := range o.ch.buf {
			h.val(v)
		}
	case o.ctx != nil:
		c := o.ctx
		h.b(22)
		h.ref(c.parent)
		h.ref(c.done)
		if c.isDone {
			h.b(1)
		} else {
			h.b(0)
		}
		h.val(c.err)
		h.val(c.cause)
		if c.hasDeadline {
			h.u(c.deadline.h)
			if c.armed {
				h.b(1)
			} else {
				h.b(0)
			}
		}
		if c.isValue {
			h.val(c.key)
			h.val(c.val)
		}
		// children are only needed for propagation; live children are reachable from elsewhere,
		// but they matter for cancellation: include them.
		h.u(uint64(len(c.children)))
		for _, ch := range c.children {
			h.ref(ch)
		}
		h.u(uint64(len(c.afterFuncs)))
		for _, f := range c.afterFuncs {
			h.val(f)
		}
	default:
		h.b(23)
		h.val(o.v)
	}
}

func (h *hasher) goroutine(g *G) {
	if g.done {
		h.b(30)
		return
	}
	h.b(31)
	if g.harness {
		h.b(1)
	} else {
		h.b(0)
	}
	if g.woken {
		h.b(1)
	}
	if g.panic != nil {
		h.b(2)
		h.val(g.panic.val)
	}
	h.u(uint64(len(g.frames)))
	for _, f := range g.frames {
		h.u(uint64(f.fi.id))
		h.u(uint64(f.block)<<32 | uint64(f.ip))
		h.b(byte(f.ret))
		if f.panicking {
			h.b(1)
		}
		if f.recovered {
			h.b(2)
		}
		if f.runningDefers {
			h.b(3)
		}
		for _, r := range f.fi.liveAt(f.block, f.ip) {
			h.u(uint64(r))
			h.val(f.regs[r])
		}
		h.u(uint64(len(f.defers)))
		for _, d := range f.defers {
			h.val(d.fn)
			for _, a := range d.args {
				h.val(a)
			}
		}
	}
}

func (h *hasher) drain() {
	for len(h.todo) > 0 {
		id := h.todo[0]
		h.todo = h.todo[1:]
		h.object(h.e.obj(h.s, id))
	}
}

// goroutineKey: serialisation of one goroutine using real object ids (for symmetry)
func (e *Engine) goroutineKey(s *State, g *G) string {
	h := &hasher{e: e, s: s, real: true}
	h.goroutine(g)
	return string(h.buf)
}

type stateKey [20]byte

func (e *Engine) hashState(s *State) stateKey {
	// order goroutines by a local hash (local object numbering) to make the key
	// independent of goroutine creation order / identity
	type gl struct {
		i int
		k string
	}
	gls := make([]gl, 0, len(s.gs))
	for i, g := range s.gs {
		if g.done {
			continue
		}
		h := &hasher{e: e, s: s, num: map[int]int{}}
		h.goroutine(g)
		// do not drain: local shape only (cheap)
		gls = append(gls, gl{i, string(h.buf)})
	}
	sort.SliceStable(gls, func(a, b int) bool { return gls[a].k < gls[b].k })
	h := &hasher{e: e, s: s, num: map[int]int{}}
	h.u(uint64(s.pcID()))
	for _, x := range gls {
		h.goroutine(s.gs[x.i])
	}
	h.u(uint64(len(s.quiesce)))
	for _, q := range s.quiesce {
		h.val(q)
	}
	for _, id := range s.gdirty {
		h.u(uint64(int64(id)))
		h.object(e.obj(s, id))
	}
	if s.timers {
		h.b(1)
	}
	if s.frozen {
		h.b(2)
	}
	if s.clock != nil {
		h.u(s.clock.h)
	}
	h.drain()
	if s.race != nil {
		s.race.hashInto(h)
	}
	sum := sha256.Sum256(h.buf)
	var k stateKey
	copy(k[:], sum[:20])
	return k
}

func (e *Engine) fnID(f *ssa.Function) int {
	return e.fnInfo(f).id
}

func (e *Engine) typeID(t types.Type) int {
	if v := e.typeIDs.At(t); v != nil {
		return v.(int)
	}
	n := e.typeIDs.Len() + 1
	e.typeIDs.Set(t, n)
	return n
}
