package main

import (
	"regexp"
	"fmt"
	"go/token"
	"go/types"
	"os"
	"path/filepath"
	"sort"
	"strings"

	"golang.org/x/tools/go/packages"
	"golang.org/x/tools/go/ssa"
	"golang.org/x/tools/go/ssa/ssautil"
)

type Program struct {
	prog     *ssa.Program
	pkgs     map[string]*ssa.Package // by import path
	fset     *token.FileSet
	repo     string
	harness  map[string]*ssa.Function // H_* entry points by name
	loadSecs float64
	dropped  []string
	needsInit map[*ssa.Global]bool // globals written by the init functions of packages whose init is not executed
	stale    map[string]string // harness entry point -> dropped harness file that defined it
}

var goatPkgs = []string{
	"github.com/avos-io/goat",
	"github.com/avos-io/goat/internal",
	"github.com/avos-io/goat/internal/client",
	"github.com/avos-io/goat/internal/server",
}

var pkgDirs = map[string]string{
	"github.com/avos-io/goat":                 "",
	"github.com/avos-io/goat/internal":        "internal",
	"github.com/avos-io/goat/internal/client": "internal/client",
	"github.com/avos-io/goat/internal/server": "internal/server",
}

// harnessOverlay maps /verif/harness/<dir>/*.go onto <repo>/<pkgdir>/zz_verif_*.go.
// dir names: goat, internal, client, server. Files in harness/common are copied
// into every harnessed package with the package clause rewritten.
func harnessOverlay(repo, harnessDir string) (map[string][]byte, error) {
	ov := map[string][]byte{}
	dirs := map[string]string{
		"goat":     "",
		"internal": "internal",
		"client":   "internal/client",
		"server":   "internal/server",
	}
	pkgName := map[string]string{"goat": "goat", "internal": "internal", "client": "client", "server": "server"}
	common, _ := filepath.Glob(filepath.Join(harnessDir, "common", "*.go"))
	for d, rel := range dirs {
		files, _ := filepath.Glob(filepath.Join(harnessDir, d, "*.go"))
		for _, f := range files {
			b, err := os.ReadFile(f)
			if err != nil {
				return nil, err
			}
			ov[filepath.Join(repo, rel, "zz_verif_"+filepath.Base(f))] = b
		}
		for _, f := range common {
			b, err := os.ReadFile(f)
			if err != nil {
				return nil, err
			}
			txt := strings.Replace(string(b), "package common", "package "+pkgName[d], 1)
			ov[filepath.Join(repo, rel, "zz_verif_common_"+filepath.Base(f))] = []byte(txt)
		}
	}
	return ov, nil
}

// droppedHarness: harness files (overlay base names) that do not compile against the tree under
// analysis; native replays leave them out as well.
var droppedHarness = map[string]bool{}

var harnessFuncRe = regexp.MustCompile(`(?m)^func (H_\w+)\(`)

func loadProgram(repo, harnessDir string) (*Program, error) {
	ov, err := harnessOverlay(repo, harnessDir)
	if err != nil {
		return nil, err
	}
	var initial []*packages.Package
	var dropped []string
	stale := map[string]string{}
	for attempt := 0; ; attempt++ {
		cfg := &packages.Config{
			Mode:       packages.LoadAllSyntax,
			Dir:        repo,
			BuildFlags: []string{"-tags=verif"},
			Overlay:    ov,
			Env:        append(os.Environ(), "GOFLAGS=-mod=mod", "GOPROXY=off", "GOSUMDB=off", "GOTOOLCHAIN=local"),
		}
		initial, err = packages.Load(cfg, goatPkgs...)
		if err != nil {
			return nil, err
		}
		nerr := 0
		bad := map[string]bool{}
		packages.Visit(initial, nil, func(p *packages.Package) {
			for _, e := range p.Errors {
				if strings.HasPrefix(p.PkgPath, "github.com/avos-io/goat") {
					fmt.Fprintf(os.Stderr, "load error: %s: %v\n", p.PkgPath, e)
					nerr++
					// a harness file that no longer type-checks against the current tree (e.g. an internal
					// field changed its type) is dropped, so that the other harnesses still run
					pos := e.Pos
					if i := strings.Index(pos, ":"); i > 0 {
						f := pos[:i]
						if strings.HasPrefix(filepath.Base(f), "zz_verif_") && !strings.HasPrefix(filepath.Base(f), "zz_verif_common_") {
							bad[f] = true
						}
					}
				}
			}
		})
		if nerr == 0 {
			break
		}
		if len(bad) == 0 || attempt >= 3 {
			return nil, fmt.Errorf("cannot build: %d type/load errors in goat packages", nerr)
		}
		for f := range bad {
			for _, m := range harnessFuncRe.FindAllSubmatch(ov[f], -1) {
				stale[string(m[1])] = filepath.Base(f)
			}
			delete(ov, f)
			dropped = append(dropped, filepath.Base(f))
			droppedHarness[filepath.Base(f)] = true
		}
		fmt.Fprintf(os.Stderr, "dropping harness files that do not compile against the current tree: %v\n", dropped)
	}
	prog, _ := ssautil.AllPackages(initial, ssa.InstantiateGenerics)
	prog.Build()
	p := &Program{prog: prog, pkgs: map[string]*ssa.Package{}, fset: prog.Fset, repo: repo, harness: map[string]*ssa.Function{}, dropped: dropped, stale: stale}
	p.needsInit = map[*ssa.Global]bool{}
	for _, sp := range prog.AllPackages() {
		p.pkgs[sp.Pkg.Path()] = sp
		if initAllow[sp.Pkg.Path()] {
			continue
		}
		for name, mem := range sp.Members {
			fn, ok := mem.(*ssa.Function)
			if !ok || !(name == "init" || strings.HasPrefix(name, "init#")) {
				continue
			}
			for _, b := range fn.Blocks {
				for _, in := range b.Instrs {
					st, ok := in.(*ssa.Store)
					if !ok {
						continue
					}
					a := st.Addr
					for {
						switch x := a.(type) {
						case *ssa.FieldAddr:
							a = x.X
							continue
						case *ssa.IndexAddr:
							a = x.X
							continue
						}
						break
					}
					if g, ok := a.(*ssa.Global); ok {
						p.needsInit[g] = true
					}
				}
			}
		}
	}
	for _, path := range goatPkgs {
		sp := p.pkgs[path]
		if sp == nil {
			return nil, fmt.Errorf("package %s not loaded", path)
		}
		for name, m := range sp.Members {
			if fn, ok := m.(*ssa.Function); ok && strings.HasPrefix(name, "H_") {
				p.harness[name] = fn
			}
		}
	}
	return p, nil
}

// FnInfo ------------------------------------------------------------------------

type FnInfo struct {
	id        int
	fn        *ssa.Function
	idx       map[ssa.Value]int
	nregs     int
	params    []int
	fvs       []int
	isHarness bool
	pkgPath   string
	name      string
	live      map[int][]int // key block<<20|ip
	liveOut   [][]uint64    // per block bitset
	liveIn    [][]uint64
	liveDone  bool
	covered   map[int]bool // blocks executed
}

func (e *Engine) fnInfo(fn *ssa.Function) *FnInfo {
	if fi, ok := e.fnInfos[fn]; ok {
		return fi
	}
	fi := &FnInfo{id: len(e.fnInfos) + 1, fn: fn, idx: map[ssa.Value]int{}, live: map[int][]int{}, covered: map[int]bool{}}
	fi.name = fn.String()
	if fn.Pkg != nil {
		fi.pkgPath = fn.Pkg.Pkg.Path()
	} else if fn.Origin() != nil && fn.Origin().Pkg != nil {
		fi.pkgPath = fn.Origin().Pkg.Pkg.Path()
	}
	n := 0
	for _, p := range fn.Params {
		fi.idx[p] = n
		fi.params = append(fi.params, n)
		n++
	}
	for _, fv := range fn.FreeVars {
		fi.idx[fv] = n
		fi.fvs = append(fi.fvs, n)
		n++
	}
	for _, b := range fn.Blocks {
		for _, in := range b.Instrs {
			if v, ok := in.(ssa.Value); ok {
				fi.idx[v] = n
				n++
			}
		}
	}
	fi.nregs = n
	// harness functions: defined in zz_verif_* files (including closures inside them)
	root := fn
	for root.Parent() != nil {
		root = root.Parent()
	}
	if root.Pos().IsValid() {
		f := e.p.fset.Position(root.Pos()).Filename
		fi.isHarness = strings.HasPrefix(filepath.Base(f), "zz_verif_")
	} else if root.Synthetic != "" && len(root.Params) > 0 {
		// wrappers/thunks/bound methods of harness types
		if strings.Contains(fi.name, "zzv") || strings.Contains(fi.name, "vf") {
			fi.isHarness = true
		}
	}
	e.fnInfos[fn] = fi
	return fi
}

func bitset(n int) []uint64 { return make([]uint64, (n+63)/64) }
func bsGet(b []uint64, i int) bool {
	return b[i/64]&(1<<uint(i%64)) != 0
}
func bsSet(b []uint64, i int) { b[i/64] |= 1 << uint(i%64) }
func bsClr(b []uint64, i int) { b[i/64] &^= 1 << uint(i%64) }

func (fi *FnInfo) computeLiveness() {
	fn := fi.fn
	nb := len(fn.Blocks)
	fi.liveIn = make([][]uint64, nb)
	fi.liveOut = make([][]uint64, nb)
	for i := range fi.liveIn {
		fi.liveIn[i] = bitset(fi.nregs)
		fi.liveOut[i] = bitset(fi.nregs)
	}
	// free variables and parameters may be used anywhere; treat normally (use-based).
	changed := true
	var ops []*ssa.Value
	for changed {
		changed = false
		for bi := nb - 1; bi >= 0; bi-- {
			b := fn.Blocks[bi]
			out := bitset(fi.nregs)
			for _, succ := range b.Succs {
				si := succ.Index
				// liveIn(succ) minus phi defs, plus phi operands for this edge
				in := fi.liveIn[si]
				for w := range out {
					out[w] |= in[w]
				}
				// phi operands from this predecessor
				pi := -1
				for k, p := range succ.Preds {
					if p == b {
						pi = k
						break
					}
				}
				for _, instr := range succ.Instrs {
					phi, ok := instr.(*ssa.Phi)
					if !ok {
						break
					}
					if pi >= 0 {
						if ix, ok := fi.idx[phi.Edges[pi]]; ok {
							bsSet(out, ix)
						}
					}
				}
			}
			live := append([]uint64(nil), out...)
			for ii := len(b.Instrs) - 1; ii >= 0; ii-- {
				instr := b.Instrs[ii]
				if v, ok := instr.(ssa.Value); ok {
					bsClr(live, fi.idx[v])
				}
				if _, isPhi := instr.(*ssa.Phi); isPhi {
					continue // phi operands are accounted on edges
				}
				ops = instr.Operands(ops[:0])
				for _, op := range ops {
					if *op == nil {
						continue
					}
					if ix, ok := fi.idx[*op]; ok {
						bsSet(live, ix)
					}
				}
			}
			for w := range live {
				if live[w] != fi.liveIn[bi][w] {
					changed = true
				}
				if out[w] != fi.liveOut[bi][w] {
					changed = true
				}
			}
			fi.liveIn[bi] = live
			fi.liveOut[bi] = out
		}
	}
	fi.liveDone = true
}

// liveAt returns the register indices live just before instruction ip of block.
// (The instruction at ip itself has not executed; for a frame suspended in a call
// at ip, the call's operands are no longer needed but keeping them is harmless.)
func (fi *FnInfo) liveAt(block, ip int) []int {
	key := block<<20 | ip
	if l, ok := fi.live[key]; ok {
		return l
	}
	if !fi.liveDone {
		fi.computeLiveness()
	}
	b := fi.fn.Blocks[block]
	live := append([]uint64(nil), fi.liveOut[block]...)
	var ops []*ssa.Value
	for ii := len(b.Instrs) - 1; ii >= ip; ii-- {
		instr := b.Instrs[ii]
		if v, ok := instr.(ssa.Value); ok {
			bsClr(live, fi.idx[v])
		}
		if _, isPhi := instr.(*ssa.Phi); isPhi {
			continue
		}
		ops = instr.Operands(ops[:0])
		for _, op := range ops {
			if *op == nil {
				continue
			}
			if ix, ok := fi.idx[*op]; ok {
				bsSet(live, ix)
			}
		}
	}
	// named-result allocs used by the recover block: keep everything used in Recover block alive
	var out []int
	for i := 0; i < fi.nregs; i++ {
		if bsGet(live, i) {
			out = append(out, i)
		}
	}
	if fi.fn.Recover != nil {
		rb := fi.fn.Recover
		extra := map[int]bool{}
		for _, instr := range rb.Instrs {
			ops = instr.Operands(ops[:0])
			for _, op := range ops {
				if *op == nil {
					continue
				}
				if ix, ok := fi.idx[*op]; ok {
					// only values defined outside the recover block
					if in, ok2 := (*op).(ssa.Instruction); !ok2 || in.Block() != rb {
						extra[ix] = true
					}
				}
			}
		}
		for _, o := range out {
			delete(extra, o)
		}
		for ix := range extra {
			out = append(out, ix)
		}
		sort.Ints(out)
	}
	fi.live[key] = out
	return out
}

func (e *Engine) posOf(instr ssa.Instruction) string {
	if instr == nil {
		return "?"
	}
	p := instr.Pos()
	if !p.IsValid() {
		// search nearby
		if b := instr.Block(); b != nil {
			for _, in := range b.Instrs {
				if in.Pos().IsValid() {
					p = in.Pos()
					break
				}
			}
		}
	}
	if !p.IsValid() {
		return "?"
	}
	pos := e.p.fset.Position(p)
	f := pos.Filename
	if rel, err := filepath.Rel(e.p.repo, f); err == nil && !strings.HasPrefix(rel, "..") {
		f = rel
	} else if i := strings.Index(f, "/pkg/mod/"); i >= 0 {
		f = f[i+9:]
	}
	return fmt.Sprintf("%s:%d", f, pos.Line)
}

var _ = types.Identical
