package main

// Hash-consed terms over Bool and fixed-width bit-vectors (width 1..64), with
// constant folding, a small rewriter, concrete evaluation and SMT-LIB2 printing.

import (
	"fmt"
	"math/bits"
	"sort"
	"strings"
)

type Op uint8

const (
	OpConst Op = iota
	OpVar
	// Bool
	OpNot
	OpAnd
	OpOr
	OpIte // (c, a, b): result sort = sort of a
	OpEq  // result Bool; args same sort
	// BV arithmetic
	OpAdd
	OpSub
	OpMul
	OpUDiv
	OpURem
	OpSDiv
	OpSRem
	OpBAnd
	OpBOr
	OpBXor
	OpShl
	OpLShr
	OpAShr
	OpNeg
	OpBNot
	// comparisons (Bool result)
	OpUlt
	OpUle
	OpSlt
	OpSle
	// width changing
	OpExtract // i = hi, j = lo
	OpZExt    // to width w
	OpSExt    // to width w
	OpTbl     // table select: tbl[arg0]; result width w
)

var opNames = map[Op]string{
	OpNot: "not", OpAnd: "and", OpOr: "or", OpIte: "ite", OpEq: "=",
	OpAdd: "bvadd", OpSub: "bvsub", OpMul: "bvmul", OpUDiv: "bvudiv", OpURem: "bvurem",
	OpSDiv: "bvsdiv", OpSRem: "bvsrem", OpBAnd: "bvand", OpBOr: "bvor", OpBXor: "bvxor",
	OpShl: "bvshl", OpLShr: "bvlshr", OpAShr: "bvashr", OpNeg: "bvneg", OpBNot: "bvnot",
	OpUlt: "bvult", OpUle: "bvule", OpSlt: "bvslt", OpSle: "bvsle",
}

// Table is a constant array used for symbolic indexing of constant Go arrays.
type Table struct {
	id   int
	w    int // element width
	iw   int // index width
	vals []uint64
	key  string
}

type Term struct {
	op   Op
	w    int // 0 = Bool, else BV width
	a    [3]*Term
	n    int // number of args
	val  uint64
	name string
	i, j int
	tbl  *Table
	id   int
	h    uint64 // structural hash (stable across engines / runs)
	um   uint64
	umOK bool
}

type termKey struct {
	op         Op
	w          int
	a0, a1, a2 int
	val        uint64
	name       string
	i, j       int
	tbl        int
}

type TermStore struct {
	tab    map[termKey]*Term
	next   int
	tables map[string]*Table
	True   *Term
	False  *Term
	vars   map[string]*Term
}

func NewTermStore() *TermStore {
	ts := &TermStore{tab: map[termKey]*Term{}, tables: map[string]*Table{}, vars: map[string]*Term{}}
	ts.True = ts.mk(&Term{op: OpConst, w: 0, val: 1})
	ts.False = ts.mk(&Term{op: OpConst, w: 0, val: 0})
	return ts
}

func mix(h, x uint64) uint64 {
	h ^= x + 0x9e3779b97f4a7c15 + (h << 6) + (h >> 2)
	h *= 0xff51afd7ed558ccd
	h ^= h >> 33
	return h
}

func strHash(s string) uint64 {
	var h uint64 = 14695981039346656037
	for i := 0; i < len(s); i++ {
		h ^= uint64(s[i])
		h *= 1099511628211
	}
	return h
}

func (ts *TermStore) mk(t *Term) *Term {
	k := termKey{op: t.op, w: t.w, val: t.val, name: t.name, i: t.i, j: t.j}
	if t.n > 0 {
		k.a0 = t.a[0].id + 1
	}
	if t.n > 1 {
		k.a1 = t.a[1].id + 1
	}
	if t.n > 2 {
		k.a2 = t.a[2].id + 1
	}
	if t.tbl != nil {
		k.tbl = t.tbl.id + 1
	}
	if e, ok := ts.tab[k]; ok {
		return e
	}
	t.id = ts.next
	ts.next++
	h := mix(uint64(t.op)+1, uint64(t.w))
	h = mix(h, t.val)
	h = mix(h, uint64(t.i)<<8|uint64(t.j))
	if t.name != "" {
		h = mix(h, strHash(t.name))
	}
	if t.tbl != nil {
		h = mix(h, strHash(t.tbl.key))
	}
	for i := 0; i < t.n; i++ {
		h = mix(h, t.a[i].h)
	}
	t.h = h
	ts.tab[k] = t
	return t
}

func mask(w int) uint64 {
	if w >= 64 {
		return ^uint64(0)
	}
	return (uint64(1) << uint(w)) - 1
}

func (t *Term) IsConst() bool { return t.op == OpConst }
func (t *Term) IsBool() bool  { return t.w == 0 }
func (t *Term) IsTrue() bool  { return t.op == OpConst && t.w == 0 && t.val == 1 }
func (t *Term) IsFalse() bool { return t.op == OpConst && t.w == 0 && t.val == 0 }

// SVal returns the constant interpreted as signed.
func (t *Term) SVal() int64 {
	return signExt(t.val, t.w)
}

func signExt(v uint64, w int) int64 {
	if w >= 64 {
		return int64(v)
	}
	if v&(uint64(1)<<uint(w-1)) != 0 {
		return int64(v | ^mask(w))
	}
	return int64(v)
}

func (ts *TermStore) Bool(b bool) *Term {
	if b {
		return ts.True
	}
	return ts.False
}

func (ts *TermStore) Const(w int, v uint64) *Term {
	if w == 0 {
		return ts.Bool(v != 0)
	}
	return ts.mk(&Term{op: OpConst, w: w, val: v & mask(w)})
}

func (ts *TermStore) Var(name string, w int) *Term {
	if t, ok := ts.vars[name]; ok {
		if t.w != w {
			panic(fmt.Sprintf("variable %s redeclared with width %d (was %d)", name, w, t.w))
		}
		return t
	}
	t := ts.mk(&Term{op: OpVar, w: w, name: name})
	ts.vars[name] = t
	return t
}

func (ts *TermStore) un(op Op, w int, a *Term) *Term {
	t := &Term{op: op, w: w, n: 1}
	t.a[0] = a
	return ts.mk(t)
}
func (ts *TermStore) bin(op Op, w int, a, b *Term) *Term {
	t := &Term{op: op, w: w, n: 2}
	t.a[0], t.a[1] = a, b
	return ts.mk(t)
}

func (ts *TermStore) Not(a *Term) *Term {
	if a.w != 0 {
		panic("Not on non-bool")
	}
	if a.IsConst() {
		return ts.Bool(a.val == 0)
	}
	if a.op == OpNot {
		return a.a[0]
	}
	return ts.un(OpNot, 0, a)
}

func (ts *TermStore) And(a, b *Term) *Term {
	if a.IsConst() {
		if a.val == 0 {
			return ts.False
		}
		return b
	}
	if b.IsConst() {
		if b.val == 0 {
			return ts.False
		}
		return a
	}
	if a == b {
		return a
	}
	if ts.Not(a) == b {
		return ts.False
	}
	if a.id > b.id {
		a, b = b, a
	}
	return ts.bin(OpAnd, 0, a, b)
}

func (ts *TermStore) Or(a, b *Term) *Term {
	if a.IsConst() {
		if a.val == 1 {
			return ts.True
		}
		return b
	}
	if b.IsConst() {
		if b.val == 1 {
			return ts.True
		}
		return a
	}
	if a == b {
		return a
	}
	if ts.Not(a) == b {
		return ts.True
	}
	if a.id > b.id {
		a, b = b, a
	}
	return ts.bin(OpOr, 0, a, b)
}

func (ts *TermStore) Ite(c, a, b *Term) *Term {
	if c.IsConst() {
		if c.val == 1 {
			return a
		}
		return b
	}
	if a == b {
		return a
	}
	if a.w != b.w {
		panic(fmt.Sprintf("ite width mismatch %d %d", a.w, b.w))
	}
	if a.w == 0 {
		if a.IsTrue() && b.IsFalse() {
			return c
		}
		if a.IsFalse() && b.IsTrue() {
			return ts.Not(c)
		}
		if a.IsTrue() {
			return ts.Or(c, b)
		}
		if a.IsFalse() {
			return ts.And(ts.Not(c), b)
		}
		if b.IsTrue() {
			return ts.Or(ts.Not(c), a)
		}
		if b.IsFalse() {
			return ts.And(c, a)
		}
	}
	t := &Term{op: OpIte, w: a.w, n: 3}
	t.a[0], t.a[1], t.a[2] = c, a, b
	return ts.mk(t)
}

func (ts *TermStore) Eq(a, b *Term) *Term {
	if a.w != b.w {
		panic(fmt.Sprintf("eq width mismatch %d %d", a.w, b.w))
	}
	if a == b {
		return ts.True
	}
	if a.IsConst() && b.IsConst() {
		return ts.Bool(a.val == b.val)
	}
	if a.w == 0 {
		if a.IsConst() {
			a, b = b, a
		}
		if b.IsConst() {
			if b.val == 1 {
				return a
			}
			return ts.Not(a)
		}
	}
	// ite(c, k1, k2) == k3
	if b.IsConst() && a.op == OpIte && a.a[1].IsConst() && a.a[2].IsConst() {
		e1 := a.a[1].val == b.val
		e2 := a.a[2].val == b.val
		switch {
		case e1 && e2:
			return ts.True
		case e1:
			return a.a[0]
		case e2:
			return ts.Not(a.a[0])
		default:
			return ts.False
		}
	}
	if a.IsConst() && b.op == OpIte && b.a[1].IsConst() && b.a[2].IsConst() {
		return ts.Eq(b, a)
	}
	// zext(x) == const
	if b.IsConst() && a.op == OpZExt {
		x := a.a[0]
		if b.val > mask(x.w) {
			return ts.False
		}
		return ts.Eq(x, ts.Const(x.w, b.val))
	}
	if a.IsConst() && b.op == OpZExt {
		return ts.Eq(b, a)
	}
	if a.id > b.id {
		a, b = b, a
	}
	return ts.bin(OpEq, 0, a, b)
}

func foldBin(op Op, w int, x, y uint64) (uint64, bool) {
	m := mask(w)
	switch op {
	case OpAdd:
		return (x + y) & m, true
	case OpSub:
		return (x - y) & m, true
	case OpMul:
		return (x * y) & m, true
	case OpUDiv:
		if y == 0 {
			return m, true
		}
		return x / y, true
	case OpURem:
		if y == 0 {
			return x, true
		}
		return x % y, true
	case OpSDiv:
		sx, sy := signExt(x, w), signExt(y, w)
		if sy == 0 {
			if sx < 0 {
				return 1, true
			}
			return m, true
		}
		if sy == -1 {
			return uint64(-sx) & m, true
		}
		return uint64(sx/sy) & m, true
	case OpSRem:
		sx, sy := signExt(x, w), signExt(y, w)
		if sy == 0 {
			return x, true
		}
		if sy == -1 {
			return 0, true
		}
		return uint64(sx%sy) & m, true
	case OpBAnd:
		return x & y, true
	case OpBOr:
		return x | y, true
	case OpBXor:
		return x ^ y, true
	case OpShl:
		if y >= uint64(w) {
			return 0, true
		}
		return (x << y) & m, true
	case OpLShr:
		if y >= uint64(w) {
			return 0, true
		}
		return x >> y, true
	case OpAShr:
		sx := signExt(x, w)
		if y >= uint64(w) {
			if sx < 0 {
				return m, true
			}
			return 0, true
		}
		return uint64(sx>>y) & m, true
	}
	return 0, false
}

func (ts *TermStore) BV(op Op, a, b *Term) *Term {
	if a.w != b.w || a.w == 0 {
		panic(fmt.Sprintf("bv op %v width mismatch %d %d", opNames[op], a.w, b.w))
	}
	w := a.w
	if a.IsConst() && b.IsConst() {
		if v, ok := foldBin(op, w, a.val, b.val); ok {
			return ts.Const(w, v)
		}
	}
	switch op {
	case OpAdd:
		if a.IsConst() && a.val == 0 {
			return b
		}
		if b.IsConst() && b.val == 0 {
			return a
		}
		// (x + c1) + c2 => x + (c1+c2)
		if b.IsConst() && a.op == OpAdd && a.a[1].IsConst() {
			return ts.BV(OpAdd, a.a[0], ts.Const(w, a.a[1].val+b.val))
		}
		if a.IsConst() {
			a, b = b, a
		}
	case OpSub:
		if b.IsConst() && b.val == 0 {
			return a
		}
		if a == b {
			return ts.Const(w, 0)
		}
		if b.IsConst() {
			return ts.BV(OpAdd, a, ts.Const(w, -b.val))
		}
		// (x + y) - x => y
		if a.op == OpAdd {
			if a.a[0] == b {
				return a.a[1]
			}
			if a.a[1] == b {
				return a.a[0]
			}
		}
	case OpMul:
		if a.IsConst() {
			a, b = b, a
		}
		if b.IsConst() {
			if b.val == 0 {
				return b
			}
			if b.val == 1 {
				return a
			}
		}
	case OpBAnd:
		if a.IsConst() {
			a, b = b, a
		}
		if b.IsConst() {
			if b.val == 0 {
				return b
			}
			if b.val == mask(w) {
				return a
			}
		}
		if a == b {
			return a
		}
	case OpBOr, OpBXor:
		if a.IsConst() {
			a, b = b, a
		}
		if b.IsConst() && b.val == 0 {
			return a
		}
		if a == b {
			if op == OpBOr {
				return a
			}
			return ts.Const(w, 0)
		}
	case OpShl, OpLShr, OpAShr:
		if b.IsConst() && b.val == 0 {
			return a
		}
	}
	return ts.bin(op, w, a, b)
}

func (ts *TermStore) Neg(a *Term) *Term {
	if a.IsConst() {
		return ts.Const(a.w, -a.val)
	}
	return ts.un(OpNeg, a.w, a)
}

func (ts *TermStore) BNot(a *Term) *Term {
	if a.IsConst() {
		return ts.Const(a.w, ^a.val)
	}
	return ts.un(OpBNot, a.w, a)
}

// upper bound on the unsigned value of t (cheap range analysis, memoised)
func (t *Term) umax() uint64 {
	if t.umOK {
		return t.um
	}
	t.um = t.umax0()
	t.umOK = true
	return t.um
}

func (t *Term) umax0() uint64 {
	m := mask(t.w)
	switch t.op {
	case OpConst:
		return t.val
	case OpBAnd:
		x, y := t.a[0].umax(), t.a[1].umax()
		if x < y {
			return x
		}
		return y
	case OpZExt:
		return t.a[0].umax()
	case OpLShr:
		if t.a[1].IsConst() && t.a[1].val < 64 {
			return t.a[0].umax() >> t.a[1].val
		}
	case OpIte:
		x, y := t.a[1].umax(), t.a[2].umax()
		if x > y {
			return x
		}
		return y
	case OpTbl:
		var mm uint64
		for _, v := range t.tbl.vals {
			if v > mm {
				mm = v
			}
		}
		return mm
	case OpURem:
		if t.a[1].IsConst() && t.a[1].val > 0 {
			return t.a[1].val - 1
		}
	case OpUDiv:
		if t.a[1].IsConst() && t.a[1].val > 0 {
			return t.a[0].umax() / t.a[1].val
		}
	case OpAdd:
		x, y := t.a[0].umax(), t.a[1].umax()
		sum, c := bits.Add64(x, y, 0)
		if c == 0 && sum <= m {
			return sum
		}
	case OpMul:
		x, y := t.a[0].umax(), t.a[1].umax()
		hi, lo := bits.Mul64(x, y)
		if hi == 0 && lo <= m {
			return lo
		}
	case OpBOr, OpBXor:
		x, y := t.a[0].umax(), t.a[1].umax()
		if x < y {
			x = y
		}
		// next power of two minus one
		n := bits.Len64(x)
		if n >= 64 {
			return m
		}
		r := (uint64(1) << uint(n)) - 1
		if r < m {
			return r
		}
	case OpExtract:
		if t.j == 0 {
			x := t.a[0].umax()
			if x <= m {
				return x
			}
		}
	}
	return m
}

// noWrapAdd reports whether a+b cannot overflow the width.
func noWrapAdd(a, b *Term) bool {
	sum, c := bits.Add64(a.umax(), b.umax(), 0)
	return c == 0 && sum <= mask(a.w)
}

func (ts *TermStore) Cmp(op Op, a, b *Term) *Term {
	if a.w != b.w || a.w == 0 {
		panic(fmt.Sprintf("cmp width mismatch %d %d", a.w, b.w))
	}
	if a.IsConst() && b.IsConst() {
		switch op {
		case OpUlt:
			return ts.Bool(a.val < b.val)
		case OpUle:
			return ts.Bool(a.val <= b.val)
		case OpSlt:
			return ts.Bool(a.SVal() < b.SVal())
		case OpSle:
			return ts.Bool(a.SVal() <= b.SVal())
		}
	}
	if a == b {
		return ts.Bool(op == OpUle || op == OpSle)
	}
	// signed comparison of two values that are both non-negative is an unsigned one
	if op == OpSlt || op == OpSle {
		half := uint64(1) << uint(a.w-1)
		if a.umax() < half && b.umax() < half {
			if op == OpSlt {
				return ts.Cmp(OpUlt, a, b)
			}
			return ts.Cmp(OpUle, a, b)
		}
	}
	switch op {
	case OpUlt:
		if b.IsConst() && b.val == 0 {
			return ts.False
		}
		if b.IsConst() && a.umax() < b.val {
			return ts.True
		}
		if a.IsConst() && b.umax() <= a.val {
			return ts.False
		}
		// (x + y) < x  is false when x + y cannot wrap
		if a.op == OpAdd && (a.a[0] == b || a.a[1] == b) && noWrapAdd(a.a[0], a.a[1]) {
			return ts.False
		}
	case OpUle:
		if b.IsConst() && a.umax() <= b.val {
			return ts.True
		}
		if a.IsConst() && a.val == 0 {
			return ts.True
		}
		if a.IsConst() && b.umax() < a.val {
			return ts.False
		}
		if b.op == OpAdd && (b.a[0] == a || b.a[1] == a) && noWrapAdd(b.a[0], b.a[1]) {
			return ts.True
		}
	}
	return ts.bin(op, 0, a, b)
}

func (ts *TermStore) Extract(hi, lo int, a *Term) *Term {
	w := hi - lo + 1
	if lo == 0 && w == a.w {
		return a
	}
	if a.IsConst() {
		return ts.Const(w, a.val>>uint(lo))
	}
	if (a.op == OpZExt || a.op == OpSExt) && lo == 0 {
		in := a.a[0]
		if w == in.w {
			return in
		}
		if w < in.w {
			return ts.Extract(hi, 0, in)
		}
		if a.op == OpZExt {
			return ts.ZExt(w, in)
		}
		return ts.SExt(w, in)
	}
	t := &Term{op: OpExtract, w: w, n: 1, i: hi, j: lo}
	t.a[0] = a
	return ts.mk(t)
}

func (ts *TermStore) ZExt(w int, a *Term) *Term {
	if w == a.w {
		return a
	}
	if w < a.w {
		return ts.Extract(w-1, 0, a)
	}
	if a.IsConst() {
		return ts.Const(w, a.val)
	}
	if a.op == OpZExt {
		return ts.ZExt(w, a.a[0])
	}
	return ts.un(OpZExt, w, a)
}

func (ts *TermStore) SExt(w int, a *Term) *Term {
	if w == a.w {
		return a
	}
	if w < a.w {
		return ts.Extract(w-1, 0, a)
	}
	if a.IsConst() {
		return ts.Const(w, uint64(a.SVal()))
	}
	return ts.un(OpSExt, w, a)
}

func (ts *TermStore) TableOf(w, iw int, vals []uint64) *Table {
	var sb strings.Builder
	fmt.Fprintf(&sb, "%d:%d:", w, iw)
	for _, v := range vals {
		fmt.Fprintf(&sb, "%x,", v)
	}
	k := sb.String()
	if t, ok := ts.tables[k]; ok {
		return t
	}
	t := &Table{id: len(ts.tables), w: w, iw: iw, vals: append([]uint64(nil), vals...), key: k}
	ts.tables[k] = t
	return t
}

func (ts *TermStore) Select(tbl *Table, idx *Term) *Term {
	if idx.IsConst() {
		if idx.val < uint64(len(tbl.vals)) {
			return ts.Const(tbl.w, tbl.vals[idx.val])
		}
		return ts.Const(tbl.w, 0)
	}
	t := &Term{op: OpTbl, w: tbl.w, n: 1, tbl: tbl}
	t.a[0] = idx
	return ts.mk(t)
}

// ---- evaluation under a model ----

type Model map[string]uint64

func (ts *TermStore) Eval(t *Term, m Model, memo map[int]uint64) uint64 {
	if v, ok := memo[t.id]; ok {
		return v
	}
	var r uint64
	switch t.op {
	case OpConst:
		r = t.val
	case OpVar:
		r = m[t.name] & mask1(t.w)
	case OpNot:
		r = 1 - ts.Eval(t.a[0], m, memo)
	case OpAnd:
		r = ts.Eval(t.a[0], m, memo) & ts.Eval(t.a[1], m, memo)
	case OpOr:
		r = ts.Eval(t.a[0], m, memo) | ts.Eval(t.a[1], m, memo)
	case OpIte:
		if ts.Eval(t.a[0], m, memo) == 1 {
			r = ts.Eval(t.a[1], m, memo)
		} else {
			r = ts.Eval(t.a[2], m, memo)
		}
	case OpEq:
		if ts.Eval(t.a[0], m, memo) == ts.Eval(t.a[1], m, memo) {
			r = 1
		}
	case OpNeg:
		r = (-ts.Eval(t.a[0], m, memo)) & mask(t.w)
	case OpBNot:
		r = (^ts.Eval(t.a[0], m, memo)) & mask(t.w)
	case OpUlt, OpUle, OpSlt, OpSle:
		x, y := ts.Eval(t.a[0], m, memo), ts.Eval(t.a[1], m, memo)
		w := t.a[0].w
		var b bool
		switch t.op {
		case OpUlt:
			b = x < y
		case OpUle:
			b = x <= y
		case OpSlt:
			b = signExt(x, w) < signExt(y, w)
		case OpSle:
			b = signExt(x, w) <= signExt(y, w)
		}
		if b {
			r = 1
		}
	case OpExtract:
		r = (ts.Eval(t.a[0], m, memo) >> uint(t.j)) & mask(t.w)
	case OpZExt:
		r = ts.Eval(t.a[0], m, memo)
	case OpSExt:
		r = uint64(signExt(ts.Eval(t.a[0], m, memo), t.a[0].w)) & mask(t.w)
	case OpTbl:
		i := ts.Eval(t.a[0], m, memo)
		if i < uint64(len(t.tbl.vals)) {
			r = t.tbl.vals[i]
		}
	default:
		x, y := ts.Eval(t.a[0], m, memo), ts.Eval(t.a[1], m, memo)
		v, ok := foldBin(t.op, t.w, x, y)
		if !ok {
			panic("eval: unknown op")
		}
		r = v
	}
	memo[t.id] = r
	return r
}

func mask1(w int) uint64 {
	if w == 0 {
		return 1
	}
	return mask(w)
}

// ---- SMT-LIB2 printing ----

func sortStr(w int) string {
	if w == 0 {
		return "Bool"
	}
	return fmt.Sprintf("(_ BitVec %d)", w)
}

func constStr(w int, v uint64) string {
	if w == 0 {
		if v != 0 {
			return "true"
		}
		return "false"
	}
	if w%4 == 0 {
		return fmt.Sprintf("#x%0*x", w/4, v)
	}
	return fmt.Sprintf("#b%0*b", w, v)
}

func smtVarName(n string) string {
	return "|" + strings.ReplaceAll(n, "|", "_") + "|"
}

// smtBody prints the term with children referenced by name (tN) when they are
// compound, inline when they are leaves.
func (t *Term) smtRef() string {
	switch t.op {
	case OpConst:
		return constStr(t.w, t.val)
	case OpVar:
		return smtVarName(t.name)
	}
	return fmt.Sprintf("t%d", t.id)
}

func (t *Term) smtBody() string {
	switch t.op {
	case OpConst, OpVar:
		return t.smtRef()
	case OpExtract:
		return fmt.Sprintf("((_ extract %d %d) %s)", t.i, t.j, t.a[0].smtRef())
	case OpZExt:
		return fmt.Sprintf("((_ zero_extend %d) %s)", t.w-t.a[0].w, t.a[0].smtRef())
	case OpSExt:
		return fmt.Sprintf("((_ sign_extend %d) %s)", t.w-t.a[0].w, t.a[0].smtRef())
	case OpTbl:
		return fmt.Sprintf("(select tbl%d %s)", t.tbl.id, t.a[0].smtRef())
	}
	var sb strings.Builder
	sb.WriteByte('(')
	sb.WriteString(opNames[t.op])
	for i := 0; i < t.n; i++ {
		sb.WriteByte(' ')
		sb.WriteString(t.a[i].smtRef())
	}
	sb.WriteByte(')')
	return sb.String()
}

func (tb *Table) smtDef() string {
	// (define-fun tblN () (Array (_ BitVec iw) (_ BitVec w)) (store ... ))
	// use most common value as the default
	cnt := map[uint64]int{}
	for _, v := range tb.vals {
		cnt[v]++
	}
	var def uint64
	best := -1
	keys := make([]uint64, 0, len(cnt))
	for v := range cnt {
		keys = append(keys, v)
	}
	sort.Slice(keys, func(i, j int) bool { return keys[i] < keys[j] })
	for _, v := range keys {
		if cnt[v] > best {
			best, def = cnt[v], v
		}
	}
	as := fmt.Sprintf("(Array (_ BitVec %d) (_ BitVec %d))", tb.iw, tb.w)
	s := fmt.Sprintf("((as const %s) %s)", as, constStr(tb.w, def))
	for i, v := range tb.vals {
		if v != def {
			s = fmt.Sprintf("(store %s %s %s)", s, constStr(tb.iw, uint64(i)), constStr(tb.w, v))
		}
	}
	return fmt.Sprintf("(define-fun tbl%d () %s %s)", tb.id, as, s)
}

// collect terms reachable from roots in topological (children first) order
func collect(roots []*Term, seen map[int]bool, out *[]*Term) {
	var rec func(t *Term)
	rec = func(t *Term) {
		if seen[t.id] {
			return
		}
		seen[t.id] = true
		for i := 0; i < t.n; i++ {
			rec(t.a[i])
		}
		*out = append(*out, t)
	}
	for _, r := range roots {
		rec(r)
	}
}

func (t *Term) String() string {
	return t.pretty(0)
}

func (t *Term) pretty(d int) string {
	if d > 6 {
		return "…"
	}
	switch t.op {
	case OpConst:
		if t.w == 0 {
			return constStr(0, t.val)
		}
		return fmt.Sprintf("%d", t.val)
	case OpVar:
		return t.name
	case OpExtract:
		return fmt.Sprintf("%s[%d:%d]", t.a[0].pretty(d+1), t.i, t.j)
	case OpZExt:
		return fmt.Sprintf("zx%d(%s)", t.w, t.a[0].pretty(d+1))
	case OpSExt:
		return fmt.Sprintf("sx%d(%s)", t.w, t.a[0].pretty(d+1))
	case OpTbl:
		return fmt.Sprintf("tbl%d[%s]", t.tbl.id, t.a[0].pretty(d+1))
	}
	var sb strings.Builder
	sb.WriteByte('(')
	sb.WriteString(opNames[t.op])
	for i := 0; i < t.n; i++ {
		sb.WriteByte(' ')
		sb.WriteString(t.a[i].pretty(d + 1))
	}
	sb.WriteByte(')')
	return sb.String()
}

