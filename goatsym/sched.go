package main

import (
	"fmt"
	"go/token"
	"go/types"
	"os"
	"strings"
	"time"

	"golang.org/x/tools/go/ssa"
)

type visKind int

const (
	vSend visKind = iota
	vRecv
	vSelect
	vClose
	vNative
)

type selArm struct {
	send bool
	ch   int
	val  Value
}

type VisOp struct {
	kind   visKind
	ch     int
	val    Value
	arms   []selArm
	block  bool // select is blocking (no default)
	nat    *Native
	fv     *FuncV
	args   []Value
	ret    retKind
	instr  ssa.Instruction
	defer_ bool
}

type Trans struct {
	g       int
	arm     int
	partner int
	parm    int
	timer   int // context object for an expiry pseudo-transition (g == -1)
}

// pendingOp returns the visible operation goroutine gi is about to perform, or nil.
func (e *Engine) pendingOp(s *State, gi int) *VisOp {
	g := s.gs[gi]
	if g.done || len(g.frames) == 0 {
		return nil
	}
	fr := g.frames[len(g.frames)-1]
	if fr.panicking || fr.recovered {
		// next action is a deferred call (or frame pop)
		if len(fr.defers) > 0 {
			d := fr.defers[len(fr.defers)-1]
			return e.visCall(s, d.fn, d.args, retDefer, nil, true)
		}
		return nil
	}
	instr := fr.fi.fn.Blocks[fr.block].Instrs[fr.ip]
	switch in := instr.(type) {
	case *ssa.Send:
		ch := e.operand(fr, in.Chan).(ChanV)
		return &VisOp{kind: vSend, ch: ch.obj, val: e.operand(fr, in.X), instr: in}
	case *ssa.UnOp:
		if in.Op == token.ARROW {
			ch := e.operand(fr, in.X).(ChanV)
			return &VisOp{kind: vRecv, ch: ch.obj, instr: in}
		}
		if e.raceMode && in.Op == token.MUL {
			return e.raceVis(s, gi, fr, in)
		}
	case *ssa.Store:
		if e.raceMode {
			return e.raceVis(s, gi, fr, in)
		}
	case *ssa.Select:
		op := &VisOp{kind: vSelect, block: in.Blocking, instr: in}
		for _, st := range in.States {
			a := selArm{send: st.Dir == types.SendOnly, ch: e.operand(fr, st.Chan).(ChanV).obj}
			if a.send {
				a.val = e.operand(fr, st.Send)
			}
			op.arms = append(op.arms, a)
		}
		return op
	case *ssa.RunDefers:
		if len(fr.defers) > 0 {
			d := fr.defers[len(fr.defers)-1]
			return e.visCall(s, d.fn, d.args, retDefer, in, true)
		}
	case *ssa.Call:
		return e.visCallInstr(s, fr, &in.Call, in)
	}
	return nil
}

func (e *Engine) visCallInstr(s *State, fr *Frame, c *ssa.CallCommon, in ssa.Instruction) *VisOp {
	// quick rejection for static SSA callees without native model
	if sc := c.StaticCallee(); sc != nil {
		fi := e.fnInfo(sc)
		nat := e.nativeInfo(fi)
		if nat == nil || !nat.visible {
			return nil
		}
		args := make([]Value, len(c.Args))
		for i, a := range c.Args {
			args[i] = e.operand(fr, a)
		}
		return &VisOp{kind: vNative, nat: nat, fv: &FuncV{fn: sc}, args: args, ret: retNormal, instr: in}
	}
	if b, ok := c.Value.(*ssa.Builtin); ok {
		if b.Name() == "close" {
			ch := e.operand(fr, c.Args[0]).(ChanV)
			return &VisOp{kind: vClose, ch: ch.obj, instr: in}
		}
		return nil
	}
	// dynamic: closure value or interface method
	var fv *FuncV
	var args []Value
	func() {
		defer func() {
			if r := recover(); r != nil {
				if _, ok := r.(goPanic); ok {
					fv = nil
					return
				}
				panic(r)
			}
		}()
		fv, args = e.resolveCall(s, fr, c)
	}()
	if fv == nil {
		return nil
	}
	return e.visCall(s, fv, args, retNormal, in, false)
}

func (e *Engine) visCall(s *State, fv *FuncV, args []Value, ret retKind, in ssa.Instruction, isDefer bool) *VisOp {
	if fv == nil {
		return nil
	}
	if fv.builtin != nil {
		if fv.builtin.Name() == "close" {
			return &VisOp{kind: vClose, ch: args[0].(ChanV).obj, instr: in, defer_: isDefer, ret: ret}
		}
		return nil
	}
	if fv.native != "" {
		nat := e.nativeClosures[fv.native]
		if nat != nil && nat.visible {
			return &VisOp{kind: vNative, nat: nat, fv: fv, args: args, ret: ret, instr: in, defer_: isDefer}
		}
		return nil
	}
	fi := e.fnInfo(fv.fn)
	nat := e.nativeInfo(fi)
	if nat == nil || !nat.visible {
		return nil
	}
	return &VisOp{kind: vNative, nat: nat, fv: fv, args: args, ret: ret, instr: in, defer_: isDefer}
}

func (e *Engine) chanOf(s *State, id int) *ChanData {
	if id == 0 {
		return nil
	}
	return e.obj(s, id).ch
}

// receivers pending on channel ch (other than goroutine self): (g, arm) pairs; arm -1 = plain recv
func (e *Engine) pendingReceivers(s *State, ops []*VisOp, ch int, self int) [][2]int {
	var out [][2]int
	for gi, op := range ops {
		if op == nil || gi == self {
			continue
		}
		switch op.kind {
		case vRecv:
			if op.ch == ch {
				out = append(out, [2]int{gi, -1})
			}
		case vSelect:
			for ai, a := range op.arms {
				if !a.send && a.ch == ch {
					out = append(out, [2]int{gi, ai})
				}
			}
		}
	}
	return out
}

// transitions enabled for goroutine gi with pending op.
func (e *Engine) enabledFor(s *State, ops []*VisOp, gi int) []Trans {
	op := ops[gi]
	var out []Trans
	switch op.kind {
	case vSend:
		c := e.chanOf(s, op.ch)
		if c == nil {
			return nil
		}
		if c.closed {
			return []Trans{{g: gi, arm: -1, partner: -1}}
		}
		if c.cap > 0 {
			if len(c.buf) < c.cap {
				return []Trans{{g: gi, arm: -1, partner: -1}}
			}
			return nil
		}
		for _, r := range e.pendingReceivers(s, ops, op.ch, gi) {
			out = append(out, Trans{g: gi, arm: -1, partner: r[0], parm: r[1]})
		}
	case vRecv:
		c := e.chanOf(s, op.ch)
		if c == nil {
			return nil
		}
		if len(c.buf) > 0 || c.closed {
			return []Trans{{g: gi, arm: -1, partner: -1}}
		}
	case vClose:
		return []Trans{{g: gi, arm: -1, partner: -1}}
	case vNative:
		if op.nat.enabled == nil || op.nat.enabled(e, s, op.fv, op.args) {
			return []Trans{{g: gi, arm: -1, partner: -1}}
		}
	case vSelect:
		definite := false
		for ai, a := range op.arms {
			c := e.chanOf(s, a.ch)
			if c == nil {
				continue
			}
			if a.send {
				if c.closed {
					out = append(out, Trans{g: gi, arm: ai, partner: -1})
					definite = true
				} else if c.cap > 0 {
					if len(c.buf) < c.cap {
						out = append(out, Trans{g: gi, arm: ai, partner: -1})
						definite = true
					}
				} else {
					for _, r := range e.pendingReceivers(s, ops, a.ch, gi) {
						out = append(out, Trans{g: gi, arm: ai, partner: r[0], parm: r[1]})
					}
				}
			} else {
				if len(c.buf) > 0 || c.closed {
					out = append(out, Trans{g: gi, arm: ai, partner: -1})
					definite = true
				}
			}
		}
		if !op.block && !definite {
			out = append(out, Trans{g: gi, arm: len(op.arms), partner: -1})
		}
	}
	return out
}

func (e *Engine) describeOp(s *State, gi int, op *VisOp) string {
	g := s.gs[gi]
	fr := g.frames[len(g.frames)-1]
	where := shortFn(fr.fi.name)
	pos := "?"
	if op != nil && op.instr != nil {
		pos = e.posOf(op.instr)
	}
	what := "?"
	if op != nil {
		switch op.kind {
		case vSend:
			what = "send"
		case vRecv:
			what = "recv"
		case vSelect:
			what = "select"
		case vClose:
			what = "close"
		case vNative:
			what = "call"
			if op.fv.fn != nil {
				what = shortFn(op.fv.fn.String())
			} else {
				what = op.fv.native
			}
		}
	}
	// innermost goat (non-harness) frame for context
	ctx := ""
	for i := len(g.frames) - 1; i >= 0; i-- {
		f := g.frames[i]
		if strings.HasPrefix(f.fi.pkgPath, "github.com/avos-io/goat") && !f.fi.isHarness && f != fr {
			ctx = " in " + shortFn(f.fi.name)
			break
		}
	}
	return fmt.Sprintf("g%s(%s) %s at %s [%s]%s", g.id, g.name, what, pos, where, ctx)
}

// recvResult builds the register value for a completed receive instruction
func (e *Engine) recvResult(in *ssa.UnOp, v Value, ok bool) Value {
	if in.CommaOk {
		return Tuple{v, e.ts.Bool(ok)}
	}
	return v
}

func (e *Engine) selectResult(in *ssa.Select, arm int, recvVal Value, recvOk bool) Value {
	t := Tuple{e.ts.Const(64, uint64(int64(arm))), e.ts.Bool(recvOk)}
	if arm >= len(in.States) {
		t[0] = e.ts.Const(64, ^uint64(0))
	}
	for i, st := range in.States {
		if st.Dir == types.RecvOnly {
			if i == arm && recvVal != nil {
				t = append(t, recvVal)
			} else {
				t = append(t, e.zero(st.Chan.Type().Underlying().(*types.Chan).Elem()))
			}
		}
	}
	return t
}

func (e *Engine) chanElemZero(in ssa.Instruction, arm int) Value {
	switch x := in.(type) {
	case *ssa.UnOp:
		return e.zero(x.X.Type().Underlying().(*types.Chan).Elem())
	case *ssa.Select:
		return e.zero(x.States[arm].Chan.Type().Underlying().(*types.Chan).Elem())
	}
	panic(engineErr("chanElemZero"))
}

// completePassive completes the receive of goroutine pg (partner of a rendezvous).
func (e *Engine) completePassive(s *State, pg int, parm int, v Value) {
	g := s.wg(pg)
	fr := s.wtop(g)
	instr := fr.fi.fn.Blocks[fr.block].Instrs[fr.ip]
	switch in := instr.(type) {
	case *ssa.UnOp:
		e.setReg(fr, in, e.recvResult(in, v, true))
	case *ssa.Select:
		e.setReg(fr, in, e.selectResult(in, parm, v, true))
	default:
		panic(engineErr("passive partner not at a receive"))
	}
	fr.ip++
}

// execTrans executes a transition's visible operation.
func (e *Engine) execTrans(s *State, ops []*VisOp, t Trans) {
	if t.g < 0 {
		e.ctxExpire(s, t.timer)
		return
	}
	gi := t.g
	e.raceG = gi
	op := ops[gi]
	g := s.wg(gi)
	fr := s.wtop(g)
	if e.trace {
		fmt.Fprintf(os.Stderr, "  T: %s arm=%d partner=%d\n", e.describeOp(s, gi, op), t.arm, t.partner)
	}
	if s.race != nil {
		switch op.kind {
		case vSend, vRecv, vClose:
			e.raceBoth(s, gi, fmt.Sprintf("c%d", op.ch))
			if t.partner >= 0 {
				e.raceBoth(s, t.partner, fmt.Sprintf("c%d", op.ch))
				e.raceAcquire(s, gi, fmt.Sprintf("c%d", op.ch))
			}
		case vSelect:
			if t.arm < len(op.arms) {
				k := fmt.Sprintf("c%d", op.arms[t.arm].ch)
				e.raceBoth(s, gi, k)
				if t.partner >= 0 {
					e.raceBoth(s, t.partner, k)
					e.raceAcquire(s, gi, k)
				}
			}
		}
	}
	switch op.kind {
	case vSend:
		c := e.chanOf(s, op.ch)
		if c.closed {
			e.raisePanic(s, gi, Iface{t: types.Typ[types.String], v: "send on closed channel"}, "send on closed channel", e.siteOf(s, gi))
			return
		}
		if t.partner >= 0 {
			e.completePassive(s, t.partner, t.parm, op.val)
		} else {
			o := e.wobj(s, op.ch)
			o.ch.buf = append(o.ch.buf, op.val)
		}
		fr.ip++
	case vRecv:
		in := op.instr.(*ssa.UnOp)
		c := e.chanOf(s, op.ch)
		if len(c.buf) > 0 {
			o := e.wobj(s, op.ch)
			v := o.ch.buf[0]
			o.ch.buf = append([]Value(nil), o.ch.buf[1:]...)
			e.setReg(fr, in, e.recvResult(in, v, true))
		} else {
			e.setReg(fr, in, e.recvResult(in, e.chanElemZero(in, 0), false))
		}
		fr.ip++
	case vClose:
		if op.ch == 0 {
			e.finishVisCall(s, gi, op)
			e.raisePanic(s, gi, Iface{t: types.Typ[types.String], v: "close of nil channel"}, "close of nil channel", e.siteOf(s, gi))
			return
		}
		c := e.chanOf(s, op.ch)
		if c.closed {
			site := e.siteOf(s, gi)
			e.finishVisCall(s, gi, op)
			e.raisePanic(s, gi, Iface{t: types.Typ[types.String], v: "close of closed channel"}, "close of closed channel", site)
			return
		}
		o := e.wobj(s, op.ch)
		o.ch.closed = true
		e.finishVisCall(s, gi, op)
	case vNative:
		if op.defer_ {
			// pop the deferred entry first
			fr.defers = fr.defers[:len(fr.defers)-1]
			if fr.panicking && g.panic == nil {
				fr.panicking = false
				fr.recovered = true
			}
		}
		e.doCall(s, gi, op.fv, op.args, op.ret)
	case vSelect:
		in := op.instr.(*ssa.Select)
		if t.arm >= len(op.arms) {
			e.setReg(fr, in, e.selectResult(in, t.arm, nil, false))
			fr.ip++
			return
		}
		a := op.arms[t.arm]
		c := e.chanOf(s, a.ch)
		if a.send {
			if c.closed {
				e.raisePanic(s, gi, Iface{t: types.Typ[types.String], v: "send on closed channel"}, "send on closed channel", e.siteOf(s, gi))
				return
			}
			if t.partner >= 0 {
				e.completePassive(s, t.partner, t.parm, a.val)
			} else {
				o := e.wobj(s, a.ch)
				o.ch.buf = append(o.ch.buf, a.val)
			}
			e.setReg(fr, in, e.selectResult(in, t.arm, nil, false))
		} else {
			if len(c.buf) > 0 {
				o := e.wobj(s, a.ch)
				v := o.ch.buf[0]
				o.ch.buf = append([]Value(nil), o.ch.buf[1:]...)
				e.setReg(fr, in, e.selectResult(in, t.arm, v, true))
			} else {
				e.setReg(fr, in, e.selectResult(in, t.arm, nil, false))
			}
		}
		fr.ip++
	}
}

// finishVisCall advances past a visible builtin call (close) executed natively.
func (e *Engine) finishVisCall(s *State, gi int, op *VisOp) {
	g := s.wg(gi)
	fr := s.wtop(g)
	if op.defer_ {
		fr.defers = fr.defers[:len(fr.defers)-1]
		return
	}
	fr.ip++
}

func (e *Engine) siteOf(s *State, gi int) string {
	g := s.gs[gi]
	for i := len(g.frames) - 1; i >= 0; i-- {
		f := g.frames[i]
		if f.fi.isHarness && i > 0 {
			continue
		}
		return shortFn(f.fi.name)
	}
	if len(g.frames) > 0 {
		return shortFn(g.frames[len(g.frames)-1].fi.name)
	}
	return "?"
}

// siteGoat: innermost goat (non-harness) function on the stack, else innermost function
func (e *Engine) siteGoat(s *State, gi int) string {
	g := s.gs[gi]
	for i := len(g.frames) - 1; i >= 0; i-- {
		f := g.frames[i]
		if strings.HasPrefix(f.fi.pkgPath, "github.com/avos-io/goat") && !f.fi.isHarness {
			return shortFn(f.fi.name)
		}
	}
	return e.siteOf(s, gi)
}

// ---------------------------------------------------------------------------------
// exploration driver

type explorer struct {
	e     *Engine
	stack []*State
}

// stepOne executes one instruction (or unwinding action) of goroutine gi, handling forks.
// Returns false if the path ended.
func (x *explorer) stepOne(s *State, gi int) (cont bool) {
	e := x.e
	cont = true
	defer func() {
		r := recover()
		if r == nil {
			s.dec = nil
			s.decPos = 0
			return
		}
		switch v := r.(type) {
		case needFork:
			if e.forkSites != nil {
				e.forkSites[e.whereAmI(s, gi)] += v.arity - 1
			}
			for i := v.arity - 1; i >= 1; i-- {
				c := e.clone(s)
				c.dec = append(append([]int(nil), s.dec...), i)
				c.decPos = 0
				c.cur = gi
				if v.conds != nil {
					if v.models != nil {
						c.model = v.models[i]
					}
					e.pcAdd(c, v.conds[i])
				}
				x.stack = append(x.stack, c)
			}
			s.dec = append(s.dec, 0)
			s.decPos = 0
			if v.conds != nil {
				if v.models != nil {
					s.model = v.models[0]
				}
				e.pcAdd(s, v.conds[0])
			}
		case goPanic:
			s.dec = nil
			s.decPos = 0
			func() {
				defer func() {
					if r2 := recover(); r2 != nil {
						if _, ok := r2.(pathEnd); ok {
							cont = false
							return
						}
						panic(r2)
					}
				}()
				e.raisePanic(s, gi, Iface{t: types.Typ[types.String], v: v.msg}, v.msg, e.siteGoat(s, gi))
			}()
		case pathEnd:
			cont = false
		case unsupported:
			e.unsupportedSeen[v.what]++
			e.markIncomplete("UNSUPPORTED: " + v.what + " at " + e.whereAmI(s, gi) + e.stackOf(s, gi))
			cont = false
		default:
			fmt.Fprintf(os.Stderr, "engine panic at %s: %v%s\n", e.whereAmI(s, gi), r, e.stackOf(s, gi))
			panic(r)
		}
	}()
	e.step(s, gi)
	return
}

func (e *Engine) stackOf(s *State, gi int) string {
	if gi < 0 || gi >= len(s.gs) {
		return "?"
	}
	var sb strings.Builder
	g := s.gs[gi]
	for i := len(g.frames) - 1; i >= 0; i-- {
		fr := g.frames[i]
		b := fr.fi.fn.Blocks[fr.block]
		pos := "?"
		if fr.ip < len(b.Instrs) {
			pos = e.posOf(b.Instrs[fr.ip])
		}
		fmt.Fprintf(&sb, "\n      %s @ %s", shortFn(fr.fi.name), pos)
	}
	return sb.String()
}

func (e *Engine) whereAmI(s *State, gi int) string {
	if gi < 0 || gi >= len(s.gs) {
		return "?"
	}
	g := s.gs[gi]
	if len(g.frames) == 0 {
		return "g" + g.id + " (no frames)"
	}
	fr := g.frames[len(g.frames)-1]
	b := fr.fi.fn.Blocks[fr.block]
	if fr.ip < len(b.Instrs) {
		return fmt.Sprintf("%s @ %s: %s", shortFn(fr.fi.name), e.posOf(b.Instrs[fr.ip]), b.Instrs[fr.ip])
	}
	return shortFn(fr.fi.name)
}

// step executes the next instruction of goroutine gi (which must not be a pending visible op
// unless called through execTrans).
func (e *Engine) step(s *State, gi int) {
	g := s.wg(gi)
	fr := s.wtop(g)
	e.raceG = gi
	e.stats.Instrs++
	s.steps++
	if s.steps > e.maxSteps {
		e.markIncomplete(fmt.Sprintf("step bound %d exceeded (unwinding assertion) in %s", e.maxSteps, shortFn(fr.fi.name)))
		panic(pathEnd{"step bound"})
	}
	if fr.panicking || fr.recovered {
		e.unwindStep(s, gi)
		return
	}
	instr := fr.fi.fn.Blocks[fr.block].Instrs[fr.ip]
	if e.trace {
		fmt.Fprintf(os.Stderr, "    g%s %s: %s\n", g.id, e.posOf(instr), instr)
	}
	switch in := instr.(type) {
	case *ssa.Jump:
		e.jump(fr, fr.fi.fn.Blocks[fr.block].Succs[0].Index)
	case *ssa.If:
		c := e.operand(fr, in.Cond).(*Term)
		if e.decide(s, c) {
			e.jump(fr, fr.fi.fn.Blocks[fr.block].Succs[0].Index)
		} else {
			e.jump(fr, fr.fi.fn.Blocks[fr.block].Succs[1].Index)
		}
	case *ssa.Phi:
		panic(engineErr("stray phi"))
	case *ssa.Return:
		var res Value
		switch len(in.Results) {
		case 0:
		case 1:
			res = e.operand(fr, in.Results[0])
		default:
			t := make(Tuple, len(in.Results))
			for i, r := range in.Results {
				t[i] = e.operand(fr, r)
			}
			res = t
		}
		e.doReturn(s, gi, res)
	case *ssa.Call:
		fv, args := e.resolveCall(s, fr, &in.Call)
		e.doCall(s, gi, fv, args, retNormal)
	case *ssa.Defer:
		fv, args := e.resolveCall(s, fr, &in.Call)
		fr.defers = append(fr.defers, Deferred{fn: fv, args: args})
		fr.ip++
	case *ssa.RunDefers:
		if len(fr.defers) > 0 {
			d := fr.defers[len(fr.defers)-1]
			fr.defers = fr.defers[:len(fr.defers)-1]
			e.doCall(s, gi, d.fn, d.args, retDefer)
		} else {
			fr.ip++
		}
	case *ssa.Go:
		fv, args := e.resolveCall(s, fr, &in.Call)
		e.spawn(s, gi, fv, args, fr.fi.isHarness)
		fr = s.wtop(s.wg(gi))
		fr.ip++
	case *ssa.Panic:
		v := e.operand(fr, in.X)
		msg := e.showValue(s, v, 0)
		fr.ip++
		e.raisePanic(s, gi, v, msg, e.siteGoat(s, gi))
	case *ssa.Send, *ssa.Select:
		panic(engineErr("visible instruction reached step(): " + instr.String()))
	default:
		if u, ok := instr.(*ssa.UnOp); ok && u.Op == token.ARROW {
			panic(engineErr("visible recv reached step()"))
		}
		e.execInstr(s, gi, g, fr, instr)
		fr.ip++
	}
}

func (e *Engine) jump(fr *Frame, to int) {
	from := fr.block
	fn := fr.fi.fn
	tb := fn.Blocks[to]
	fr.fi.covered[to] = true
	// evaluate phis simultaneously
	pi := -1
	for k, p := range tb.Preds {
		if p.Index == from {
			pi = k
			break
		}
	}
	n := 0
	var vals []Value
	for _, instr := range tb.Instrs {
		phi, ok := instr.(*ssa.Phi)
		if !ok {
			break
		}
		vals = append(vals, e.operand(fr, phi.Edges[pi]))
		n++
	}
	for i := 0; i < n; i++ {
		e.setReg(fr, tb.Instrs[i].(*ssa.Phi), vals[i])
	}
	fr.prev = from
	fr.block = to
	fr.ip = n
}

func (e *Engine) spawn(s *State, parent int, fv *FuncV, args []Value, harness bool) int {
	pg := s.wg(parent)
	id := fmt.Sprintf("%s.%d", pg.id, pg.nspawn)
	pg.nspawn++
	ng := &G{gen: s.gen, id: id, harness: harness}
	if fv.fn != nil {
		ng.name = shortFn(fv.fn.String())
	} else {
		ng.name = fv.native
	}
	s.gs = append(s.gs, ng)
	gi := len(s.gs) - 1
	e.raceFork(s, parent, gi)
	if fv.fn != nil && e.nativeFor(e.fnInfo(fv.fn)) == nil && fv.builtin == nil {
		if fv.fn.Blocks == nil {
			unsup("go of external function %s", fv.fn)
		}
		e.pushFrame(s, ng, e.fnInfo(fv.fn), args, fv.env, retGo)
	} else {
		unsup("go statement with native/builtin callee %s", ng.name)
	}
	return gi
}

func (e *Engine) explore(init *State) {
	x := &explorer{e: e, stack: []*State{init}}
	for len(x.stack) > 0 {
		if e.deadlineAt != 0 && time.Now().Unix() > e.deadlineAt {
			e.markIncomplete("wall-clock budget exceeded")
			return
		}
		if len(e.violOrder) >= e.maxViolations {
			e.markIncomplete("too many distinct violations")
			return
		}
		s := x.stack[len(x.stack)-1]
		x.stack = x.stack[:len(x.stack)-1]
		if len(x.stack) > e.stats.MaxDepth {
			e.stats.MaxDepth = len(x.stack)
		}
		x.runPath(s)
		e.stats.Paths++
		if e.maxPaths > 0 && e.stats.Paths >= e.maxPaths {
			e.markIncomplete("path budget exceeded")
			return
		}
	}
}

func (x *explorer) runPath(s *State) {
	e := x.e
	for {
		if s.cur >= 0 {
			gi := s.cur
			g := s.gs[gi]
			if g.done {
				s.cur = -1
				continue
			}
			if s.inQuiesce {
				// callbacks run to completion; visible ops execute immediately when enabled
				if op := e.pendingOp(s, gi); op != nil {
					ops := make([]*VisOp, len(s.gs))
					ops[gi] = op
					ts := e.enabledFor(s, ops, gi)
					if len(ts) == 0 {
						e.markIncomplete("quiescence callback blocked at " + e.describeOp(s, gi, op))
						return
					}
					if !x.transSafe(s, ops, ts[0]) {
						return
					}
					continue
				}
			} else if e.pendingOp(s, gi) != nil {
				s.cur = -1
				continue
			}
			if !x.stepOne(s, gi) {
				return
			}
			continue
		}
		// any goroutine at an invisible instruction?
		found := false
		for gi, g := range s.gs {
			if g.done {
				continue
			}
			if e.pendingOp(s, gi) == nil {
				s.cur = gi
				found = true
				break
			}
		}
		if found {
			continue
		}
		if s.inQuiesce {
			if len(s.quiesce) > 0 {
				cb := s.quiesce[0]
				s.quiesce = append([]*FuncV(nil), s.quiesce[1:]...)
				ng := &G{gen: s.gen, id: fmt.Sprintf("q%d", len(s.gs)), harness: true, name: "atQuiescence"}
				s.gs = append(s.gs, ng)
				e.pushFrame(s, ng, e.fnInfo(cb.fn), nil, cb.env, retGo)
				s.cur = len(s.gs) - 1
				if s.race != nil {
					// a quiescence callback observes the final state: ordered after everything
					var all VC
					for gi := range s.gs {
						all = vcJoin(all, s.race.gvc[gi])
					}
					s.race.gvc[s.cur] = all
				}
				continue
			}
			return
		}
		// scheduling point
		if !x.schedule(s) {
			return
		}
	}
}

// transSafe executes a transition under the fork/panic protocol.
func (x *explorer) transSafe(s *State, ops []*VisOp, t Trans) (cont bool) {
	e := x.e
	cont = true
	defer func() {
		r := recover()
		if r == nil {
			s.dec = nil
			s.decPos = 0
			return
		}
		switch v := r.(type) {
		case needFork:
			// visible operations must not fork internally (natives decide before mutating);
			// handle by cloning and retrying the same forced transition
			for i := v.arity - 1; i >= 1; i-- {
				c := e.clone(s)
				c.dec = append(append([]int(nil), s.dec...), i)
				c.decPos = 0
				if v.conds != nil {
					if v.models != nil {
						c.model = v.models[i]
					}
					e.pcAdd(c, v.conds[i])
				}
				c.forced = &t
				x.stack = append(x.stack, c)
			}
			s.dec = append(s.dec, 0)
			s.decPos = 0
			if v.conds != nil {
				if v.models != nil {
					s.model = v.models[0]
				}
				e.pcAdd(s, v.conds[0])
			}
			cont = x.transSafe(s, ops, t)
		case goPanic:
			s.dec = nil
			func() {
				defer func() {
					if r2 := recover(); r2 != nil {
						if _, ok := r2.(pathEnd); ok {
							cont = false
							return
						}
						panic(r2)
					}
				}()
				e.raisePanic(s, t.g, Iface{t: types.Typ[types.String], v: v.msg}, v.msg, e.siteGoat(s, t.g))
			}()
		case pathEnd:
			cont = false
		case unsupported:
			e.unsupportedSeen[v.what]++
			e.markIncomplete("UNSUPPORTED: " + v.what + " at " + e.whereAmI(s, t.g))
			cont = false
		default:
			fmt.Fprintf(os.Stderr, "engine panic in transition at %s: %v\n", e.whereAmI(s, t.g), r)
			panic(r)
		}
	}()
	e.execTrans(s, ops, t)
	return
}

func (x *explorer) schedule(s *State) bool {
	e := x.e
	e.stats.SchedPoints++
	ops := make([]*VisOp, len(s.gs))
	live := 0
	for gi, g := range s.gs {
		if g.done {
			continue
		}
		live++
		ops[gi] = e.pendingOp(s, gi)
	}
	if s.forced != nil {
		t := *s.forced
		s.forced = nil
		return x.fire(s, ops, t)
	}
	// state caching
	if !e.noCache && e.replay == nil && live > 1 {
		k := e.hashState(s)
		if e.visited[k] {
			e.stats.CacheHits++
			return false
		}
		e.visited[k] = true
	}
	e.stats.States++
	s.sched++
	if s.sched > e.maxSched {
		e.markIncomplete(fmt.Sprintf("scheduler step bound %d exceeded", e.maxSched))
		return false
	}
	var trans []Trans
	// symmetry: goroutines with identical serialisation are interchangeable
	seen := map[string]int{}
	symOf := make([]int, len(s.gs))
	for gi := range s.gs {
		symOf[gi] = gi
		if ops[gi] == nil {
			continue
		}
		k := e.goroutineKey(s, s.gs[gi])
		if first, ok := seen[k]; ok {
			symOf[gi] = first
		} else {
			seen[k] = gi
		}
	}
	for gi := range s.gs {
		if ops[gi] == nil {
			continue
		}
		if symOf[gi] != gi {
			e.stats.SymPruned++
			continue
		}
		for _, t := range e.enabledFor(s, ops, gi) {
			if t.partner >= 0 && symOf[t.partner] != t.partner {
				continue
			}
			trans = append(trans, t)
		}
	}
	{
		for id := 1; id < len(s.heap); id++ {
			o := s.heap[id]
			if o != nil && o.ctx != nil && o.ctx.armed && !o.ctx.isDone {
				trans = append(trans, Trans{g: -1, timer: id})
			}
		}
	}
	if len(trans) == 0 {
		x.quiescent(s, ops)
		return false
	}
	// singleton persistent sets: an always-enabled operation that only touches an object no other
	// goroutine can currently operate on in a conflicting way. We use the safe special case:
	// Unlock of a mutex (only the holder can unlock; waiters are disabled until then).
	for _, t := range trans {
		if t.g >= 0 && ops[t.g].kind == vNative && ops[t.g].nat.eager {
			return x.fire(s, ops, t)
		}
	}
	if len(trans) == 1 {
		return x.fire(s, ops, trans[0])
	}
	c := 0
	if e.replay != nil {
		c = e.choose(s, len(trans), "sched", "")
		s.dec = nil
		s.decPos = 0
		s.addTrail("sched", c, len(trans), "")
		return x.fire(s, ops, trans[c])
	}
	for i := len(trans) - 1; i >= 1; i-- {
		cl := e.clone(s)
		t := trans[i]
		cl.forced = &t
		cl.addTrail("sched", i, len(trans), e.transInfo(s, ops, t))
		x.stack = append(x.stack, cl)
	}
	s.addTrail("sched", c, len(trans), e.transInfo(s, ops, trans[0]))
	return x.fire(s, ops, trans[0])
}

func (e *Engine) transInfo(s *State, ops []*VisOp, t Trans) string {
	if t.g < 0 {
		return fmt.Sprintf("expire ctx %d", t.timer)
	}
	return e.describeOp(s, t.g, ops[t.g])
}

func (x *explorer) fire(s *State, ops []*VisOp, t Trans) bool {
	e := x.e
	e.stats.Transitions++
	if t.g >= 0 {
		s.event(e.describeOp(s, t.g, ops[t.g]))
	} else {
		s.event(fmt.Sprintf("deadline of context %d expires", t.timer))
	}
	if !x.transSafe(s, ops, t) {
		return false
	}
	if t.g >= 0 {
		s.cur = t.g
	}
	return true
}

func (x *explorer) quiescent(s *State, ops []*VisOp) {
	e := x.e
	e.stats.Quiescent++
	e.recordSample(s)
	var blocked []string
	mainBlocked := false
	for gi, g := range s.gs {
		if g.done {
			continue
		}
		blocked = append(blocked, e.describeOp(s, gi, ops[gi]))
		if gi == 0 {
			mainBlocked = true
		}
	}
	s.blocked = blocked
	if len(s.quiesce) == 0 {
		if mainBlocked {
			e.report(s, "quiescence", "main-blocked", "", "harness entry goroutine blocked forever (deadlock)", nil, blocked)
		}
		return
	}
	s.inQuiesce = true
	x.runPath(s)
}

func (e *Engine) recordSample(s *State) {
	if len(e.samples) >= 2 || e.replay != nil || e.inInit {
		return
	}
	r, m := e.solver.Check(s.pc.terms(), true)
	if r != Sat {
		return
	}
	nd := map[string]uint64{}
	for _, n := range e.nondetOrder {
		if v, ok := m[n]; ok && len(nd) < 24 {
			nd[n] = v
		}
	}
	ev := s.eventList()
	if len(ev) > 40 {
		ev = append(ev[:40], fmt.Sprintf("... (%d more)", len(ev)-40))
	}
	var full []NondetRec
	for _, n := range e.nondetOrder {
		full = append(full, NondetRec{Name: n, Width: e.nondetVars[n], Value: m[n]})
	}
	var trail []TrailRec
	for _, t := range s.trailList() {
		trail = append(trail, TrailRec{Kind: t.kind, Choice: t.choice, Arity: t.arity, Info: t.info})
	}
	e.sampleCex = append(e.sampleCex, &CexFile{Harness: e.harness, Params: e.params, Nondet: full, Trail: trail})
	e.samples = append(e.samples, map[string]interface{}{
		"harness": e.harness, "path_condition_conjuncts": len(s.pc.terms()), "nondet_values": nd,
		"schedule": ev, "instructions": s.steps,
	})
}
