package main

import (
	"encoding/json"
	"flag"
	"fmt"
	"os"
	"os/exec"
	"path/filepath"
	"sort"
	"strconv"
	"strings"
	"sync"
	"time"
)

type JobSpec struct {
	H        string         `json:"H"`
	P        map[string]int `json:"p"`
	Reach    []string       `json:"required_reach"`
	Soft     []string       `json:"soft_reach"` // labels whose absence only means a name-based look into internals found nothing
	Conc     bool           `json:"conc"`
	Race     bool           `json:"race"`
	MaxSched int            `json:"max_sched"`
	MaxSteps int            `json:"max_steps"`
	Budget   int            `json:"budget_s"`
	Twin     bool           `json:"twin"` // vacuity twin: must produce a violation
	Env      bool           `json:"env"`  // relies on environment stubs (network libraries): no native run
}

type PropSpec struct {
	Title       string    `json:"title"`
	Assumptions []string  `json:"assumptions"`
	Bounds      string    `json:"bounds"`
	Quick       []JobSpec `json:"quick"`
	Thorough    []JobSpec `json:"thorough"`
}

type KnownFinding struct {
	Property  string `json:"property"`
	Signature string `json:"signature"`
	What      string `json:"what"`
}

type KnownFile struct {
	Known []KnownFinding `json:"known"`
	Fixed []string       `json:"fixed"`
}

type CexFile struct {
	Property  string         `json:"property"`
	Harness   string         `json:"harness"`
	Params    map[string]int `json:"params"`
	Conc      bool           `json:"conc"`
	Race      bool           `json:"race"`
	Env       bool           `json:"env"`
	Violation *Violation     `json:"violation"`
	Nondet    []NondetRec    `json:"nondet"`
	Trail     []TrailRec     `json:"trail"`
}

func verifDir() string {
	if d := os.Getenv("VERIF_DIR"); d != "" {
		return d
	}
	return "/verif"
}

// outDir is where evidence and counterexample files go: /verif unless VERIF_OUT redirects them
// (used when a scratch copy of the repository is checked, so that committed evidence is only
// ever written by runs against /repo itself).
func outDir() string {
	if d := os.Getenv("VERIF_OUT"); d != "" {
		return d
	}
	return verifDir()
}

func paramStr(p map[string]int) string {
	var ks []string
	for k := range p {
		ks = append(ks, k)
	}
	sort.Strings(ks)
	var parts []string
	for _, k := range ks {
		parts = append(parts, fmt.Sprintf("%s=%d", k, p[k]))
	}
	return strings.Join(parts, ",")
}

func newEngineFor(p *Program, j JobSpec, cross bool) *Engine {
	e := NewEngine(p)
	e.params = map[string]int{}
	for k, v := range j.P {
		e.params[k] = v
	}
	if j.MaxSched > 0 {
		e.maxSched = j.MaxSched
	}
	if j.MaxSteps > 0 {
		e.maxSteps = j.MaxSteps
	}
	budget := j.Budget
	if budget == 0 {
		// default wall-clock budgets per job: a run that exceeds them is INCOMPLETE (exit 2), never a pass
		budget = 900
		if os.Getenv("GOATSYM_TIER") == "thorough" {
			budget = 2400
		}
	}
	e.deadlineAt = time.Now().Unix() + int64(budget)
	e.raceMode = j.Race
	e.solver.Cross = cross
	return e
}

func runJob(p *Program, j JobSpec, cross bool) *RunResult {
	e := newEngineFor(p, j, cross)
	defer e.solver.Close()
	if err := e.buildInitState(); err != nil {
		return &RunResult{Harness: j.H, Params: j.P, Status: "ERROR", Error: "init: " + err.Error()}
	}
	res := e.runHarness(j.H)
	res.Samples = e.samples
	if res.Status == "PASS" {
		for _, l := range j.Reach {
			if res.Reach[l] == 0 {
				res.Status = "VACUOUS"
				res.Incomplete = append(res.Incomplete, "required reach label never hit: "+l)
			}
		}
		for _, l := range j.Soft {
			if res.Reach[l] == 0 {
				res.Degraded = append(res.Degraded, l)
			}
		}
	}
	return res
}

// engineReplay re-executes a counterexample concretely in a fresh engine.
func engineReplay(p *Program, c *CexFile) (bool, string) {
	j := JobSpec{H: c.Harness, P: c.Params, Race: c.Race}
	e := newEngineFor(p, j, false)
	defer e.solver.Close()
	if err := e.buildInitState(); err != nil {
		return false, "init: " + err.Error()
	}
	m := Model{}
	for _, n := range c.Nondet {
		m[n.Name] = n.Value
	}
	e.replay = &ReplayInput{Model: m, Trail: c.Trail}
	e.noCache = true
	e.trace = os.Getenv("GOATSYM_TRACE") != ""
	res := e.runHarness(c.Harness)
	for _, v := range res.Violations {
		if v.Sig == c.Violation.Sig {
			return true, "engine replay reproduced " + v.Sig
		}
	}
	var got []string
	for _, v := range res.Violations {
		got = append(got, v.Sig)
	}
	return false, fmt.Sprintf("engine replay did not reproduce %s (status %s, got %v, incomplete %v %s)", c.Violation.Sig, res.Status, got, res.Incomplete, res.Error)
}

var pkgOfHarnessDir = map[string]string{"goat": ".", "internal": "./internal", "client": "./internal/client", "server": "./internal/server"}
var pkgNameOfDir = map[string]string{"goat": "goat", "internal": "internal", "client": "client", "server": "server"}

func harnessDirOf(p *Program, h string) string {
	fn := p.harness[h]
	if fn == nil {
		return ""
	}
	switch fn.Pkg.Pkg.Path() {
	case "github.com/avos-io/goat":
		return "goat"
	case "github.com/avos-io/goat/internal":
		return "internal"
	case "github.com/avos-io/goat/internal/client":
		return "client"
	case "github.com/avos-io/goat/internal/server":
		return "server"
	}
	return ""
}

// nativeReplay runs the harness natively (go test with an overlay) with the counterexample's values.
func nativeReplay(repo, harnessDir string, hdir string, c *CexFile, cexPath string) (string, string, error) {
	tmp, err := os.MkdirTemp("", "goatsym-replay-")
	if err != nil {
		return "", "", err
	}
	defer os.RemoveAll(tmp)
	ov, err := harnessOverlay(repo, harnessDir)
	if err != nil {
		return "", "", err
	}
	repl := map[string]string{}
	i := 0
	for virt, content := range ov {
		if droppedHarness[filepath.Base(virt)] {
			continue // does not compile against this tree (see loadProgram)
		}
		// only the harness's own package needs its files; others are harmless but slow: include all
		real := filepath.Join(tmp, fmt.Sprintf("f%d.go", i))
		i++
		if err := os.WriteFile(real, content, 0o644); err != nil {
			return "", "", err
		}
		repl[virt] = real
	}
	rel := map[string]string{"goat": "", "internal": "internal", "client": "internal/client", "server": "internal/server"}[hdir]
	test := fmt.Sprintf("//go:build verif\n\npackage %s\n\nimport (\n\t\"fmt\"\n\t\"testing\"\n)\n\nfunc TestVFReplay(t *testing.T) {\n\tfmt.Println(\"VF-OUTCOME:\", vfReplayMain(%s))\n}\n", pkgNameOfDir[hdir], c.Harness)
	tf := filepath.Join(tmp, "replay_test.go")
	os.WriteFile(tf, []byte(test), 0o644)
	repl[filepath.Join(repo, rel, "zz_verif_replay_test.go")] = tf
	ovb, _ := json.Marshal(map[string]interface{}{"Replace": repl})
	ovf := filepath.Join(tmp, "overlay.json")
	os.WriteFile(ovf, ovb, 0o644)
	cmd := exec.Command("timeout", "120", "go", "test", "-v", "-tags", "verif", "-vet=off", "-count=1", "-run", "^TestVFReplay$", "-overlay", ovf, pkgOfHarnessDir[hdir])
	cmd.Dir = repo
	cmd.Env = append(os.Environ(), "GOFLAGS=-mod=mod", "GOPROXY=off", "GOSUMDB=off", "GOTOOLCHAIN=local",
		"VF_REPLAY="+cexPath, "VF_PARAMS="+paramStr(c.Params))
	out, _ := cmd.CombinedOutput()
	txt := string(out)
	for _, l := range strings.Split(txt, "\n") {
		if i := strings.Index(l, "VF-OUTCOME: "); i >= 0 {
			return strings.TrimSpace(l[i+12:]), txt, nil
		}
	}
	// a panic in a goroutine other than the test's kills the process
	if strings.Contains(txt, "panic:") {
		for _, l := range strings.Split(txt, "\n") {
			if strings.HasPrefix(l, "panic:") {
				return "PANIC " + strings.TrimSpace(strings.TrimPrefix(l, "panic:")), txt, nil
			}
		}
	}
	return "", txt, fmt.Errorf("no outcome line in native replay output")
}

func expectedOutcome(v *Violation) string {
	if v.Label == "main-blocked" {
		return "?" // the harness blocks for ever: a native run has no outcome line
	}
	switch v.Kind {
	case "assert", "quiescence":
		return "ASSERT " + v.Label
	case "crash":
		return "PANIC"
	}
	return "?"
}

func confirmCex(p *Program, repo, harnessDir string, c *CexFile, path string) (bool, string) {
	ok, msg := engineReplay(p, c)
	if !ok {
		return false, msg
	}
	if c.Env {
		return true, msg + " (harness relies on environment stubs of network libraries: no native run)"
	}
	if c.Conc {
		return true, msg + " (concurrent scenario: schedule replayed in the engine on the real SSA; no native schedule replay)"
	}
	want := expectedOutcome(c.Violation)
	if want == "?" {
		// e.g. a harness that blocks for ever: there is no native outcome line to compare with (the
		// native run would only sit in its timeout); the engine replay on the real SSA is the confirmation
		return true, msg + " (violation kind " + c.Violation.Kind + ": confirmed by engine replay only)"
	}
	hdir := harnessDirOf(p, c.Harness)
	got, txt, err := nativeReplay(repo, harnessDir, hdir, c, path)
	if err != nil {
		tail := txt
		if len(tail) > 1500 {
			tail = tail[len(tail)-1500:]
		}
		return false, "native replay failed: " + err.Error() + "\n" + tail
	}
	if strings.HasPrefix(got, want) {
		return true, msg + "; native replay: " + got
	}
	return false, fmt.Sprintf("native replay outcome %q, expected %q", got, want)
}

func loadKnown() *KnownFile {
	k := &KnownFile{}
	b, err := os.ReadFile(filepath.Join(verifDir(), "known_findings.json"))
	if err == nil {
		json.Unmarshal(b, k)
	}
	return k
}

func cmdCheck(args []string) {
	fs := flag.NewFlagSet("check", flag.ExitOnError)
	repo := fs.String("repo", "/repo", "repository")
	hd := fs.String("harness-dir", filepath.Join(verifDir(), "harness"), "harness directory")
	prop := fs.String("property", "", "property id")
	tier := fs.String("tier", "quick", "quick|thorough")
	par := fs.Int("j", 12, "parallel jobs")
	fs.Parse(args)
	t0 := time.Now()
	os.Setenv("GOATSYM_TIER", *tier)
	seed, _ := strconv.Atoi(os.Getenv("VERIF_SEED"))
	specs := map[string]*PropSpec{}
	b, err := os.ReadFile(filepath.Join(*hd, "properties.json"))
	if err != nil {
		fmt.Fprintln(os.Stderr, "properties.json:", err)
		os.Exit(2)
	}
	if err := json.Unmarshal(b, &specs); err != nil {
		fmt.Fprintln(os.Stderr, "properties.json:", err)
		os.Exit(2)
	}
	spec := specs[*prop]
	if spec == nil {
		fmt.Fprintln(os.Stderr, "no spec for property", *prop)
		os.Exit(2)
	}
	jobs := spec.Quick
	if *tier == "thorough" && len(spec.Thorough) > 0 {
		jobs = spec.Thorough
	}
	evPath := filepath.Join(outDir(), "evidence", *prop+".json")
	os.MkdirAll(filepath.Dir(evPath), 0o755)
	os.Remove(evPath)
	p, err := loadProgram(*repo, *hd)
	if err != nil {
		fmt.Fprintln(os.Stderr, "cannot build:", err)
		writeEvidence(evPath, *prop, *tier, seed, nil, jobs, spec, time.Since(t0).Seconds(), 0, 0, []string{"cannot build: " + err.Error()}, nil)
		os.Exit(2)
	}
	loadS := time.Since(t0).Seconds()
	results := make([]*RunResult, len(jobs))
	var wg sync.WaitGroup
	sem := make(chan struct{}, *par)
	cross := *tier == "thorough"
	for i := range jobs {
		wg.Add(1)
		go func(i int) {
			defer wg.Done()
			sem <- struct{}{}
			defer func() { <-sem }()
			defer func() {
				if r := recover(); r != nil {
					results[i] = &RunResult{Harness: jobs[i].H, Params: jobs[i].P, Status: "ERROR", Error: fmt.Sprint("engine panic: ", r)}
				}
			}()
			results[i] = runJob(p, jobs[i], cross)
			fmt.Fprintf(os.Stderr, "[%s] %s(%s): %s paths=%d states=%d trans=%d vcs=%d solver=%d/%.1fs wall=%.1fs\n", *prop, jobs[i].H, paramStr(jobs[i].P),
				results[i].Status, results[i].Stats.Paths, results[i].Stats.States, results[i].Stats.Transitions, results[i].Stats.VCs, results[i].Solver.Queries, results[i].Solver.WallS, results[i].WallS)
		}(i)
	}
	wg.Wait()
	known := loadKnown()
	knownSig := map[string]KnownFinding{}
	for _, k := range known.Known {
		if k.Property == *prop {
			knownSig[k.Signature] = k
		}
	}
	exit := 0
	var problems []string
	var lines []string
	nviol, nreplayed := 0, 0
	nstale, ndecided := 0, 0
	knownHit := map[string]bool{}
	confirmed := map[string]string{}
	tried := map[string]bool{}
	cexDir := filepath.Join(outDir(), "out", "cex", *prop)
	os.MkdirAll(cexDir, 0o755)
	for i, r := range results {
		j := jobs[i]
		if j.Twin {
			// vacuity twin: expected to fail
			if r.Status != "VIOLATION" {
				problems = append(problems, fmt.Sprintf("vacuity twin %s(%s) did not fail (status %s)", j.H, paramStr(j.P), r.Status))
				if exit == 0 {
					exit = 2
				}
			}
			continue
		}
		if len(r.Degraded) > 0 {
			fmt.Fprintf(os.Stderr, "NOTE: %s(%s): oracle degraded on this tree - internal names not found, assertions skipped: %v\n", j.H, paramStr(j.P), r.Degraded)
		}
		switch r.Status {
		case "PASS":
			ndecided++
		case "VIOLATION":
			ndecided++
		case "STALE":
			// the harness reaches into internals that no longer exist under that name: the job cannot be
			// built for this tree. Reported, counted as not explored; the property is decided by the
			// remaining jobs (exit 2 below if none remain).
			nstale++
			problems = append(problems, fmt.Sprintf("STALE-HARNESS %s(%s): %s", j.H, paramStr(j.P), r.Error))
		default:
			problems = append(problems, fmt.Sprintf("%s(%s): %s %v %s", j.H, paramStr(j.P), r.Status, r.Incomplete, r.Error))
			if exit == 0 {
				exit = 2
			}
		}
		// a run with violations may also be incomplete
		if r.Status == "VIOLATION" && len(r.Incomplete) > 0 {
			problems = append(problems, fmt.Sprintf("%s(%s): INCOMPLETE %v", j.H, paramStr(j.P), r.Incomplete))
			if exit == 0 {
				exit = 2
			}
		}
		for vi, v := range r.Violations {
			if k, ok := knownSig[v.Sig]; ok {
				if !knownHit[v.Sig] {
					knownHit[v.Sig] = true
					lines = append(lines, fmt.Sprintf("KNOWN-FINDING: property=%s %s [%s]", *prop, k.What, v.Sig))
				}
				continue
			}
			if confirmed[v.Sig] != "" || tried[v.Sig] {
				// same signature already confirmed (or already found unconfirmable) from another job of this property
				continue
			}
			tried[v.Sig] = true
			nviol++
			c := &CexFile{Property: *prop, Harness: j.H, Params: j.P, Conc: j.Conc, Race: j.Race, Env: j.Env, Violation: v, Nondet: v.Nondet, Trail: v.Trail}
			path := filepath.Join(cexDir, fmt.Sprintf("%s-%s-%d.json", j.H, strings.ReplaceAll(paramStr(j.P), ",", "_"), vi))
			writeJSON(path, c)
			ok, msg := confirmCex(p, *repo, *hd, c, path)
			nreplayed++
			if ok {
				confirmed[v.Sig] = path
				lines = append(lines, fmt.Sprintf("VIOLATION property=%s replay=%s", *prop, path))
				fmt.Fprintf(os.Stderr, "  confirmed: %s: %s (%s)\n", v.Sig, v.Msg, msg)
				exit = 1
			} else {
				problems = append(problems, fmt.Sprintf("UNCONFIRMED-CEX %s: %s", v.Sig, msg))
				if exit == 0 {
					exit = 2
				}
			}
		}
	}
	// translator validation: a completed path of each of (up to) two sequential jobs is re-run
	// natively (go test -overlay) with the solver's values; the natively compiled harness must
	// complete with all its assertions holding, as the engine predicted.
	nvalid := 0
	for i, r := range results {
		if nvalid >= 2 || exit != 0 {
			break
		}
		j := jobs[i]
		if j.Conc || j.Race || j.Twin || j.Env || r.Status != "PASS" || len(r.sampleCex) == 0 {
			continue
		}
		c := r.sampleCex[0]
		c.Property = *prop
		c.Harness = j.H
		c.Violation = &Violation{Sig: "sample", Kind: "none"}
		path := filepath.Join(cexDir, fmt.Sprintf("sample-%s-%s.json", j.H, strings.ReplaceAll(paramStr(j.P), ",", "_")))
		writeJSON(path, c)
		got, txt, err := nativeReplay(*repo, *hd, harnessDirOf(p, j.H), c, path)
		if err != nil || got != "OK" {
			tail := txt
			if len(tail) > 800 {
				tail = tail[len(tail)-800:]
			}
			problems = append(problems, fmt.Sprintf("TRANSLATOR-MISMATCH %s(%s): engine predicted a clean path, native run gave %q %v %s", j.H, paramStr(j.P), got, err, tail))
			exit = 2
			continue
		}
		nvalid++
		nreplayed++
	}
	if nstale > 0 && ndecided == 0 && exit == 0 {
		exit = 2
	}
	if nstale > 0 {
		fmt.Fprintf(os.Stderr, "NOTE: %d of %d jobs could not be built for this tree (stale harness files); decided on the remaining %d\n", nstale, len(jobs), ndecided)
	}
	for _, l := range lines {
		fmt.Println(l)
	}
	for _, pr := range problems {
		fmt.Fprintln(os.Stderr, "PROBLEM:", pr)
	}
	var kh []string
	for k := range knownHit {
		kh = append(kh, k)
	}
	sort.Strings(kh)
	writeEvidence(evPath, *prop, *tier, seed, results, jobs, spec, time.Since(t0).Seconds(), nviol, nreplayed, problems, kh)
	fmt.Fprintf(os.Stderr, "[%s %s] exit=%d load=%.1fs wall=%.1fs\n", *prop, *tier, exit, loadS, time.Since(t0).Seconds())
	os.Exit(exit)
}

func writeEvidence(path, prop, tier string, seed int, results []*RunResult, jobs []JobSpec, spec *PropSpec, wall float64, nviol, nreplayed int, problems []string, knownHit []string) {
	states, trans, paths, vcs, vcsSolver, vcsFolded, queries, unsat, sat, unknown := 0, 0, 0, 0, 0, 0, 0, 0, 0, 0
	solverWall := 0.0
	var samples []interface{}
	var harnesses []map[string]interface{}
	fnAgg := map[string]*FnCov{}
	fallback := map[string]int{}
	crossOK, crossDiff := 0, 0
	exhaustive := len(results) > 0
	for i, r := range results {
		if r == nil {
			continue
		}
		states += r.Stats.States + r.Stats.Paths
		trans += r.Stats.Transitions + r.Stats.Paths
		paths += r.Stats.Paths
		vcs += r.Stats.VCs
		vcsSolver += r.Stats.VCsSolver
		vcsFolded += r.Stats.VCsFolded
		queries += r.Solver.Queries
		unsat += r.Solver.Unsat
		sat += r.Solver.Sat
		unknown += r.Solver.Unknown
		solverWall += r.Solver.WallS
		crossOK += r.Solver.CrossOK
		crossDiff += r.Solver.CrossDiff
		for k, v := range r.Solver.Fallback {
			fallback[k] += v
		}
		if r.Status != "PASS" && !(jobs[i].Twin && r.Status == "VIOLATION") {
			if !(r.Status == "VIOLATION" && len(r.Incomplete) == 0) {
				exhaustive = false
			}
		}
		for _, smp := range r.Samples {
			if len(samples) < 12 {
				samples = append(samples, smp)
			}
		}
		h := map[string]interface{}{
			"harness": r.Harness, "params": r.Params, "status": r.Status, "paths": r.Stats.Paths, "sched_states": r.Stats.States,
			"transitions": r.Stats.Transitions, "cache_hits": r.Stats.CacheHits, "symmetry_pruned": r.Stats.SymPruned,
			"instructions": r.Stats.Instrs, "vcs": r.Stats.VCs, "vcs_folded": r.Stats.VCsFolded, "vcs_solver": r.Stats.VCsSolver,
			"branch_feasibility_queries": r.Stats.Branches, "quiescent_states": r.Stats.Quiescent,
			"solver_queries": r.Solver.Queries, "solver_wall_s": r.Solver.WallS, "reach": r.Reach, "incomplete": r.Incomplete, "oracle_degraded": r.Degraded,
			"wall_s": r.WallS, "twin": jobs[i].Twin, "conc": jobs[i].Conc,
		}
		if len(r.Violations) > 0 {
			var sigs []string
			for _, v := range r.Violations {
				sigs = append(sigs, v.Sig)
			}
			h["violation_signatures"] = sigs
		}
		harnesses = append(harnesses, h)
		for _, f := range r.Functions {
			a := fnAgg[f.Name]
			if a == nil {
				c := f
				fnAgg[f.Name] = &c
			} else if f.Covered > a.Covered {
				a.Covered = f.Covered
			}
		}
	}
	var fns []FnCov
	for _, f := range fnAgg {
		fns = append(fns, *f)
	}
	sort.Slice(fns, func(i, j int) bool { return fns[i].Name < fns[j].Name })
	if len(samples) == 0 {
		samples = append(samples, map[string]interface{}{"note": "no path sample recorded"})
	}
	if states == 0 {
		states = 1
	}
	if trans == 0 {
		trans = 1
	}
	assumptions := []string{
		"engine goatsym: own symbolic executor of go/ssa (x/tools v0.29.0) for the current /repo tree; goat's own code is executed from SSA, never modelled",
		"native models (trusted): sync.Mutex/RWMutex/WaitGroup/Once, sync/atomic, channels/select/go, context (atomic cancellation of descendants; deadlines expire only when the harness arms timers), time (fresh non-decreasing instants), strings.ToLower/ToUpper (ASCII), zerolog (Panic level panics), proto.Clone/Marshal/Unmarshal (wire tokens, empty repeated -> nil)",
		"Go-source shims executed symbolically: fmt.Sprintf/Errorf, errors.Is/As, grpc codec for testproto.Msg (injective model, zero value <-> empty body)",
		"scheduler reduction: state caching, symmetry of identical goroutines, eager mutex Unlock; plain memory accesses are invisible (race freedom is checked separately under C15)",
	}
	if spec != nil {
		assumptions = append(assumptions, spec.Assumptions...)
	}
	ev := map[string]interface{}{
		"property_id": prop,
		"tier":        tier,
		"seed":        seed,
		"level":       "model_checking",
		"coverage": map[string]interface{}{
			"states":                        states,
			"transitions":                   trans,
			"traces_validated_against_impl": nreplayed,
			"samples":                       samples,
			"exhaustive":                    exhaustive && len(problems) == 0,
			"paths":                         paths,
			"vcs_total":                     vcs,
			"vcs_folded_by_encoder":         vcsFolded,
			"vcs_sent_to_solver":            vcsSolver,
			"solver_queries":                queries,
			"solver_unsat":                  unsat,
			"solver_sat":                    sat,
			"solver_unknown":                unknown,
			"solver_fallback_backends":      fallback,
			"solver_crosscheck_agree":       crossOK,
			"solver_crosscheck_disagree":    crossDiff,
			"solver_wall_s":                 solverWall,
			"harnesses":                     harnesses,
			"functions_encoded":             fns,
			"bounds":                        boundsOf(spec, jobs),
			"known_findings_hit":            knownHit,
			"problems":                      problems,
			"explanation":                   "states = scheduling states after caching + sequential path leaves; transitions = scheduler transitions + sequential paths; every branch on a symbolic condition and every assertion is decided by an SMT query (z3 4.8.12 incremental; cvc5 --solve-bv-as-int=sum, z3 5.1.0, cvc5 as fall-backs); unknown/timeouts make the run INCOMPLETE (exit 2), never a pass",
		},
		"assumptions": assumptions,
		"wall_s":      wall,
		"violations":  nviol,
	}
	writeJSON(path, ev)
}

func boundsOf(spec *PropSpec, jobs []JobSpec) interface{} {
	var bs []string
	for _, j := range jobs {
		bs = append(bs, fmt.Sprintf("%s(%s)", j.H, paramStr(j.P)))
	}
	out := map[string]interface{}{"jobs": bs}
	if spec != nil {
		out["statement"] = spec.Bounds
	}
	return out
}

func cmdReplay(args []string) {
	fs := flag.NewFlagSet("replay", flag.ExitOnError)
	repo := fs.String("repo", "/repo", "repository")
	hd := fs.String("harness-dir", filepath.Join(verifDir(), "harness"), "harness directory")
	fs.Parse(args)
	if fs.NArg() < 1 {
		fmt.Fprintln(os.Stderr, "usage: goatsym replay <cex.json>")
		os.Exit(2)
	}
	path := fs.Arg(0)
	b, err := os.ReadFile(path)
	if err != nil {
		fmt.Fprintln(os.Stderr, err)
		os.Exit(2)
	}
	var c CexFile
	if err := json.Unmarshal(b, &c); err != nil {
		fmt.Fprintln(os.Stderr, err)
		os.Exit(2)
	}
	p, err := loadProgram(*repo, *hd)
	if err != nil {
		fmt.Fprintln(os.Stderr, "cannot build:", err)
		os.Exit(2)
	}
	ok, msg := confirmCex(p, *repo, *hd, &c, path)
	fmt.Println(msg)
	if ok {
		fmt.Printf("REPRODUCED property=%s signature=%s\n", c.Property, c.Violation.Sig)
		for _, ev := range c.Violation.Events {
			fmt.Println("  ", ev)
		}
		os.Exit(1)
	}
	fmt.Println("NOT REPRODUCED")
	os.Exit(0)
}
