package main

// Native models of the environment below goat: sync, sync/atomic, context, time,
// strings.ToLower, zerolog, proto.Clone, and the harness intrinsics (vf*).

import (
	"fmt"
	"go/types"
	"os"
	"strings"

	"golang.org/x/tools/go/ssa"
)

type NativeFn func(e *Engine, s *State, gi int, fi *FnInfo, args []Value, kind retKind)

type Native struct {
	fn      NativeFn
	visible bool
	eager   bool // always enabled and independent of every other enabled transition
	enabled func(e *Engine, s *State, fv *FuncV, args []Value) bool
}

func (e *Engine) nativeFor(fi *FnInfo) NativeFn {
	if n := e.nativeInfo(fi); n != nil {
		return n.fn
	}
	return nil
}

func (e *Engine) nativeInfo(fi *FnInfo) *Native {
	if n, ok := e.nativeCache[fi]; ok {
		return n
	}
	n := e.lookupNative(fi)
	e.nativeCache[fi] = n
	return n
}

// ret: helper delivering a result
func ret(v Value) NativeFn {
	return func(e *Engine, s *State, gi int, fi *FnInfo, args []Value, kind retKind) {
		e.finishCall(s, gi, kind, v)
	}
}

func simple(f func(e *Engine, s *State, gi int, args []Value) Value) *Native {
	return &Native{fn: func(e *Engine, s *State, gi int, fi *FnInfo, args []Value, kind retKind) {
		e.finishCall(s, gi, kind, f(e, s, gi, args))
	}}
}

func visible(f func(e *Engine, s *State, gi int, args []Value) Value) *Native {
	n := simple(f)
	n.visible = true
	return n
}

func (e *Engine) structFieldPath(t types.Type, names ...string) []int {
	var path []int
	for _, nm := range names {
		st, ok := t.Underlying().(*types.Struct)
		if !ok {
			panic(engineErr("structFieldPath: not a struct: " + t.String()))
		}
		found := false
		for i := 0; i < st.NumFields(); i++ {
			if st.Field(i).Name() == nm {
				path = append(path, i)
				t = st.Field(i).Type()
				found = true
				break
			}
		}
		if !found {
			panic(engineErr("structFieldPath: no field " + nm + " in " + t.String()))
		}
	}
	return path
}

func recvElem(fi *FnInfo) types.Type {
	return fi.fn.Signature.Recv().Type().Underlying().(*types.Pointer).Elem()
}

func subPtr(p Ptr, path []int) Ptr {
	np := make([]int, 0, len(p.path)+len(path))
	np = append(np, p.path...)
	np = append(np, path...)
	return Ptr{obj: p.obj, path: np}
}

func (e *Engine) cellInt(s *State, p Ptr) *Term {
	return e.load(s, p).(*Term)
}

func (e *Engine) lookupNative(fi *FnInfo) *Native {
	name := fi.name
	ts := e.ts
	// harness intrinsics
	if fi.isHarness || strings.HasPrefix(fi.fn.Name(), "vf") {
		if n := e.intrinsic(fi); n != nil {
			return n
		}
	}
	// redirects to Go shims
	if target, ok := shimRedirects[name]; ok {
		shim := e.shimFn(target)
		if shim != nil {
			sfi := e.fnInfo(shim)
			return &Native{fn: func(e *Engine, s *State, gi int, _ *FnInfo, args []Value, kind retKind) {
				g := s.wg(gi)
				e.pushFrame(s, g, sfi, args, nil, kind)
			}}
		}
	}
	switch name {
	// ---- sync.Mutex
	case "(*sync.Mutex).Lock":
		path := e.structFieldPath(recvElem(fi), "state")
		return &Native{visible: true,
			enabled: func(e *Engine, s *State, fv *FuncV, args []Value) bool {
				p := args[0].(Ptr)
				if p.obj == 0 {
					return true
				}
				return e.cellInt(s, subPtr(p, path)).val == 0
			},
			fn: func(e *Engine, s *State, gi int, fi *FnInfo, args []Value, kind retKind) {
				p := subPtr(args[0].(Ptr), path)
				e.store(s, p, ts.Const(32, 1))
				e.raceAcquire(s, gi, "mu"+ptrKey(p))
				e.finishCall(s, gi, kind, nil)
			}}
	case "(*sync.Mutex).TryLock":
		path := e.structFieldPath(recvElem(fi), "state")
		return visible(func(e *Engine, s *State, gi int, args []Value) Value {
			p := subPtr(args[0].(Ptr), path)
			if e.cellInt(s, p).val == 0 {
				e.store(s, p, ts.Const(32, 1))
				return ts.True
			}
			return ts.False
		})
	case "(*sync.Mutex).Unlock":
		path := e.structFieldPath(recvElem(fi), "state")
		n := visible(func(e *Engine, s *State, gi int, args []Value) Value {
			p := subPtr(args[0].(Ptr), path)
			if e.cellInt(s, p).val == 0 {
				e.gopanic("fatal error: sync: unlock of unlocked mutex")
			}
			e.store(s, p, ts.Const(32, 0))
			e.raceRelease(s, gi, "mu"+ptrKey(p))
			return nil
		})
		n.eager = true
		return n
	// ---- sync.RWMutex (writer lock in w.state, reader count in readerCount.v)
	case "(*sync.RWMutex).Lock", "(*sync.RWMutex).RLock":
		wp := e.structFieldPath(recvElem(fi), "w", "state")
		rp := e.structFieldPath(recvElem(fi), "readerCount", "v")
		write := strings.HasSuffix(name, ").Lock")
		return &Native{visible: true,
			enabled: func(e *Engine, s *State, fv *FuncV, args []Value) bool {
				p := args[0].(Ptr)
				if e.cellInt(s, subPtr(p, wp)).val != 0 {
					return false
				}
				return !write || e.cellInt(s, subPtr(p, rp)).val == 0
			},
			fn: func(e *Engine, s *State, gi int, fi *FnInfo, args []Value, kind retKind) {
				p := args[0].(Ptr)
				if write {
					e.store(s, subPtr(p, wp), ts.Const(32, 1))
				} else {
					c := e.cellInt(s, subPtr(p, rp))
					e.store(s, subPtr(p, rp), ts.Const(32, c.val+1))
				}
				// happens-before: a writer's Unlock precedes every later Lock/RLock; a reader's RUnlock
				// precedes every later Lock (readers are not ordered among themselves)
				e.raceAcquire(s, gi, "rww"+ptrKey(p))
				if write {
					e.raceAcquire(s, gi, "rwr"+ptrKey(p))
				}
				e.finishCall(s, gi, kind, nil)
			}}
	case "(*sync.RWMutex).Unlock", "(*sync.RWMutex).RUnlock":
		wp := e.structFieldPath(recvElem(fi), "w", "state")
		rp := e.structFieldPath(recvElem(fi), "readerCount", "v")
		write := strings.HasSuffix(name, ").Unlock")
		n := visible(func(e *Engine, s *State, gi int, args []Value) Value {
			p := args[0].(Ptr)
			if write {
				if e.cellInt(s, subPtr(p, wp)).val == 0 {
					e.gopanic("fatal error: sync: Unlock of unlocked RWMutex")
				}
				e.store(s, subPtr(p, wp), ts.Const(32, 0))
				e.raceRelease(s, gi, "rww"+ptrKey(p))
			} else {
				c := e.cellInt(s, subPtr(p, rp))
				if c.val == 0 {
					e.gopanic("fatal error: sync: RUnlock of unlocked RWMutex")
				}
				e.store(s, subPtr(p, rp), ts.Const(32, c.val-1))
				e.raceRelease(s, gi, "rwr"+ptrKey(p))
			}
			return nil
		})
		n.eager = true
		return n
	// ---- sync.WaitGroup (counter in state.v)
	case "(*sync.WaitGroup).Add", "(*sync.WaitGroup).Done":
		path := e.structFieldPath(recvElem(fi), "state", "v")
		isDone := strings.HasSuffix(name, "Done")
		return visible(func(e *Engine, s *State, gi int, args []Value) Value {
			p := subPtr(args[0].(Ptr), path)
			c := int64(e.cellInt(s, p).val)
			d := int64(-1)
			if !isDone {
				dt := args[1].(*Term)
				if !dt.IsConst() {
					unsup("symbolic WaitGroup delta")
				}
				d = dt.SVal()
			}
			c += d
			if c < 0 {
				e.gopanic("sync: negative WaitGroup counter")
			}
			e.store(s, p, ts.Const(64, uint64(c)))
			e.raceRelease(s, gi, "wg"+ptrKey(p))
			return nil
		})
	case "(*sync.WaitGroup).Wait":
		path := e.structFieldPath(recvElem(fi), "state", "v")
		return &Native{visible: true,
			enabled: func(e *Engine, s *State, fv *FuncV, args []Value) bool {
				return e.cellInt(s, subPtr(args[0].(Ptr), path)).val == 0
			},
			fn: func(e *Engine, s *State, gi int, fi *FnInfo, args []Value, kind retKind) {
				e.raceAcquire(s, gi, "wg"+ptrKey(subPtr(args[0].(Ptr), path)))
				e.finishCall(s, gi, kind, nil)
			}}
	case "(*sync.Once).Do-native-disabled": // executed from sync's own SSA (Mutex + atomic models give the exact blocking and happens-before semantics)
		path := e.structFieldPath(recvElem(fi), "done", "v")
		return &Native{visible: true, fn: func(e *Engine, s *State, gi int, fi *FnInfo, args []Value, kind retKind) {
			p := subPtr(args[0].(Ptr), path)
			e.raceBoth(s, gi, "once"+ptrKey(p))
			if e.cellInt(s, p).val != 0 {
				e.finishCall(s, gi, kind, nil)
				return
			}
			e.store(s, p, ts.Const(32, 1))
			f := args[1].(*FuncV)
			k := kind
			if k == retNormal {
				k = retDiscard
			}
			e.doCall(s, gi, f, nil, k)
		}}
	// ---- sync/atomic functions
	case "sync/atomic.AddUint64", "sync/atomic.AddInt64", "sync/atomic.AddUint32", "sync/atomic.AddInt32":
		return visible(func(e *Engine, s *State, gi int, args []Value) Value {
			p := args[0].(Ptr)
			e.raceAtomic(s, gi, p)
			e.raceBoth(s, gi, "at"+ptrKey(p))
			v := ts.BV(OpAdd, e.cellInt(s, p), args[1].(*Term))
			e.store(s, p, v)
			return v
		})
	case "sync/atomic.LoadUint64", "sync/atomic.LoadInt64", "sync/atomic.LoadUint32", "sync/atomic.LoadInt32":
		return visible(func(e *Engine, s *State, gi int, args []Value) Value {
			e.raceBoth(s, gi, "at"+ptrKey(args[0].(Ptr)))
			return e.load(s, args[0].(Ptr))
		})
	case "sync/atomic.StoreUint64", "sync/atomic.StoreInt64", "sync/atomic.StoreUint32", "sync/atomic.StoreInt32":
		return visible(func(e *Engine, s *State, gi int, args []Value) Value {
			e.raceBoth(s, gi, "at"+ptrKey(args[0].(Ptr)))
			e.store(s, args[0].(Ptr), args[1])
			return nil
		})
	case "sync/atomic.CompareAndSwapInt32", "sync/atomic.CompareAndSwapUint32", "sync/atomic.CompareAndSwapInt64", "sync/atomic.CompareAndSwapUint64":
		return visible(func(e *Engine, s *State, gi int, args []Value) Value {
			p := args[0].(Ptr)
			cur := e.cellInt(s, p)
			if e.decide(s, ts.Eq(cur, args[1].(*Term))) {
				e.store(s, p, args[2])
				return ts.True
			}
			return ts.False
		})
	// ---- time
	case "time.Now":
		return simple(func(e *Engine, s *State, gi int, args []Value) Value {
			return e.timeVal(fi.fn.Signature.Results().At(0).Type(), e.now(s))
		})
	case "time.Until":
		return simple(func(e *Engine, s *State, gi int, args []Value) Value {
			return ts.BV(OpSub, e.timeNs(args[0]), e.now(s))
		})
	case "time.Since":
		return simple(func(e *Engine, s *State, gi int, args []Value) Value {
			return ts.BV(OpSub, e.now(s), e.timeNs(args[0]))
		})
	case "(time.Time).Add":
		return simple(func(e *Engine, s *State, gi int, args []Value) Value {
			return e.timeVal(fi.fn.Signature.Results().At(0).Type(), ts.BV(OpAdd, e.timeNs(args[0]), args[1].(*Term)))
		})
	case "(time.Time).Sub":
		return simple(func(e *Engine, s *State, gi int, args []Value) Value {
			return ts.BV(OpSub, e.timeNs(args[0]), e.timeNs(args[1]))
		})
	case "(time.Time).Before":
		return simple(func(e *Engine, s *State, gi int, args []Value) Value {
			return ts.Cmp(OpSlt, e.timeNs(args[0]), e.timeNs(args[1]))
		})
	case "(time.Time).After":
		return simple(func(e *Engine, s *State, gi int, args []Value) Value {
			return ts.Cmp(OpSlt, e.timeNs(args[1]), e.timeNs(args[0]))
		})
	case "(time.Time).Equal":
		return simple(func(e *Engine, s *State, gi int, args []Value) Value {
			return ts.Eq(e.timeNs(args[0]), e.timeNs(args[1]))
		})
	case "(time.Time).IsZero":
		return simple(func(e *Engine, s *State, gi int, args []Value) Value {
			return ts.Eq(e.timeNs(args[0]), ts.Const(64, 0))
		})
	case "(time.Time).UnixNano":
		return simple(func(e *Engine, s *State, gi int, args []Value) Value { return e.timeNs(args[0]) })
	case "(time.Time).Unix":
		return simple(func(e *Engine, s *State, gi int, args []Value) Value {
			return ts.BV(OpSDiv, e.timeNs(args[0]), ts.Const(64, 1000000000))
		})
	case "(time.Duration).Seconds":
		return simple(func(e *Engine, s *State, gi int, args []Value) Value {
			d := args[0].(*Term)
			if !d.IsConst() {
				unsup("Duration.Seconds of symbolic duration")
			}
			return float64(d.SVal()) / 1e9
		})
	// ---- sync.Pool: a pool may drop what it is given at any time; the model always does, so Get
	// returns New() (or nil without New) and Put forgets its argument
	case "(*sync.Pool).Put":
		return simple(func(e *Engine, s *State, gi int, args []Value) Value { return nil })
	case "(*sync.Pool).Get":
		path := e.structFieldPath(recvElem(fi), "New")
		return &Native{fn: func(e *Engine, s *State, gi int, fi *FnInfo, args []Value, kind retKind) {
			f, _ := e.load(s, subPtr(args[0].(Ptr), path)).(*FuncV)
			if f == nil || (f.fn == nil && f.native == "" && f.builtin == nil) {
				e.finishCall(s, gi, kind, Iface{})
				return
			}
			e.doCall(s, gi, f, nil, kind)
		}}
	// ---- sync.Cond: the runtime's ticket queue (notifyList{wait, notify}); Cond's own code runs from SSA
	case "(*sync.copyChecker).check":
		return simple(func(e *Engine, s *State, gi int, args []Value) Value { return nil })
	case "sync.runtime_notifyListAdd":
		wp := e.structFieldPath(recvElemOfParam(fi, 0), "wait")
		return visible(func(e *Engine, s *State, gi int, args []Value) Value {
			p := subPtr(args[0].(Ptr), wp)
			t := e.cellInt(s, p)
			e.store(s, p, ts.Const(32, t.val+1))
			return t
		})
	case "sync.runtime_notifyListWait":
		np := e.structFieldPath(recvElemOfParam(fi, 0), "notify")
		return &Native{visible: true,
			enabled: func(e *Engine, s *State, fv *FuncV, args []Value) bool {
				return e.cellInt(s, subPtr(args[0].(Ptr), np)).val > args[1].(*Term).val
			},
			fn: func(e *Engine, s *State, gi int, fi *FnInfo, args []Value, kind retKind) {
				e.raceAcquire(s, gi, "cond"+ptrKey(args[0].(Ptr)))
				e.finishCall(s, gi, kind, nil)
			}}
	case "sync.runtime_notifyListNotifyAll", "sync.runtime_notifyListNotifyOne":
		wp := e.structFieldPath(recvElemOfParam(fi, 0), "wait")
		np := e.structFieldPath(recvElemOfParam(fi, 0), "notify")
		all := strings.HasSuffix(name, "All")
		return visible(func(e *Engine, s *State, gi int, args []Value) Value {
			p := args[0].(Ptr)
			w := e.cellInt(s, subPtr(p, wp)).val
			n := e.cellInt(s, subPtr(p, np)).val
			if all {
				n = w
			} else if n < w {
				n++
			}
			e.store(s, subPtr(p, np), ts.Const(32, n))
			e.raceRelease(s, gi, "cond"+ptrKey(p))
			return nil
		})
	case "sync.runtime_registerPoolCleanup", "sync.runtime_notifyListCheck":
		return simple(func(e *Engine, s *State, gi int, args []Value) Value { return nil })
	case "time.Sleep":
		return visible(func(e *Engine, s *State, gi int, args []Value) Value { return nil })
	// ---- reflect (only what goat's RegisterService uses: TypeOf(x), Type.Elem(), Type.Implements(u))
	// A reflect.Type value is an interface holding *reflect.rtype whose payload is the type's
	// canonical string, interned in e.rtypes.
	case "reflect.TypeOf":
		return simple(func(e *Engine, s *State, gi int, args []Value) Value {
			x := args[0].(Iface)
			if x.t == nil {
				return Iface{}
			}
			return e.rtypeVal(x.t)
		})
	case "(*reflect.rtype).Elem":
		return simple(func(e *Engine, s *State, gi int, args []Value) Value {
			t := e.rtypeOf(args[0])
			switch u := t.Underlying().(type) {
			case *types.Pointer:
				return e.rtypeVal(u.Elem())
			case *types.Slice:
				return e.rtypeVal(u.Elem())
			case *types.Array:
				return e.rtypeVal(u.Elem())
			case *types.Map:
				return e.rtypeVal(u.Elem())
			case *types.Chan:
				return e.rtypeVal(u.Elem())
			}
			e.gopanic("reflect: Elem of invalid type " + t.String())
			return nil
		})
	case "(*reflect.rtype).Implements":
		return simple(func(e *Engine, s *State, gi int, args []Value) Value {
			t := e.rtypeOf(args[0])
			ui, ok := args[1].(Iface)
			if !ok || ui.t == nil {
				e.gopanic("reflect: nil type passed to Type.Implements")
			}
			u := e.rtypeOf(ui.v)
			it, isI := u.Underlying().(*types.Interface)
			if !isI {
				e.gopanic("reflect: non-interface type passed to Type.Implements")
			}
			return ts.Bool(e.implements(t, it))
		})
	case "(*reflect.rtype).String":
		return simple(func(e *Engine, s *State, gi int, args []Value) Value { return e.rtypeOf(args[0]).String() })
	case "maps.clone":
		// runtime-implemented shallow copy of a map (maps.Clone)
		return simple(func(e *Engine, s *State, gi int, args []Value) Value {
			m, ok := args[0].(Iface)
			if !ok || m.t == nil {
				return args[0]
			}
			mv := m.v.(MapV)
			if mv.obj == 0 {
				return m
			}
			md := e.obj(s, mv.obj).m
			nd := &MapData{keys: append([]Value(nil), md.keys...), vals: append([]Value(nil), md.vals...)}
			id := s.alloc(&Object{m: nd, label: "maps.clone"})
			nm := mv
			nm.obj = id
			return Iface{t: m.t, v: nm}
		})
	// ---- strconv formatting of a possibly symbolic integer (decimal): same digit-string model as
	// the %d verb of the fmt shim; other bases / concrete values run strconv's own code
	case "strconv.Itoa", "strconv.FormatInt", "strconv.FormatUint":
		return &Native{fn: func(e *Engine, s *State, gi int, fi *FnInfo, args []Value, kind retKind) {
			x := args[0].(*Term)
			base10 := true
			if len(args) > 1 {
				b := args[1].(*Term)
				base10 = b.IsConst() && b.val == 10
			}
			if x.IsConst() || !base10 {
				// concrete (or not decimal): the real implementation, from SSA
				g := s.wg(gi)
				e.pushFrame(s, g, fi, args, nil, kind)
				return
			}
			e.finishCall(s, gi, kind, e.itoa(s, gi, e.toW(x, 64, name != "strconv.FormatUint")))
		}}
	// ---- strings
	case "strings.ToLower", "strings.ToUpper":
		upper := name == "strings.ToUpper"
		return simple(func(e *Engine, s *State, gi int, args []Value) Value {
			if str, ok := args[0].(string); ok {
				if upper {
					return strings.ToUpper(str)
				}
				return strings.ToLower(str)
			}
			bs := e.strBytes(args[0])
			out := make([]*Term, len(bs))
			for i, b := range bs {
				var lo, hi, delta uint64 = 'A', 'Z', 32
				if upper {
					lo, hi, delta = 'a', 'z', uint64(256-32)
				}
				in := ts.And(ts.Cmp(OpUle, ts.Const(8, lo), b), ts.Cmp(OpUle, b, ts.Const(8, hi)))
				out[i] = ts.Ite(in, ts.BV(OpAdd, b, ts.Const(8, delta)), b)
			}
			return mkStr(out)
		})
	case "internal/stringslite.Clone", "strings.Clone", "strconv.cloneString":
		return simple(func(e *Engine, s *State, gi int, args []Value) Value { return args[0] })
	case "github.com/pkg/errors.callers":
		return simple(func(e *Engine, s *State, gi int, args []Value) Value { return Ptr{} })
	case "(google.golang.org/grpc/mem.SliceBuffer).Free":
		// Pooling model: once a codec buffer has been freed its bytes belong to the pool and may be
		// overwritten by any later encode - they become arbitrary (fresh unconstrained symbols).
		return simple(func(e *Engine, s *State, gi int, args []Value) Value {
			sl, ok := args[0].(Slice)
			if !ok || sl.obj == 0 || sl.ln == 0 {
				return nil
			}
			g := s.wg(gi)
			base := fmt.Sprintf("freed@%s#%d", g.id, g.nnondet)
			g.nnondet++
			vals := make([]Value, sl.ln)
			for i := range vals {
				t := ts.Var(fmt.Sprintf("%s[%d]", base, i), 8)
				e.registerVar(t)
				if e.replay != nil {
					t = ts.Const(8, e.replay.Model[t.name])
				}
				vals[i] = t
			}
			e.writeElems(s, sl, 0, vals)
			return nil
		})
	// ---- internal/bytealg primitives (assembly in the real runtime)
	case "internal/bytealg.IndexByteString", "internal/bytealg.IndexByte", "internal/bytealg.LastIndexByteString", "internal/bytealg.LastIndexByte":
		last := strings.Contains(name, "Last")
		return simple(func(e *Engine, s *State, gi int, args []Value) Value {
			bs := e.bytesOf(s, args[0])
			c := args[1].(*Term)
			if last {
				for i := len(bs) - 1; i >= 0; i-- {
					if e.decide(s, ts.Eq(bs[i], c)) {
						return ts.Const(64, uint64(i))
					}
				}
				return ts.Const(64, ^uint64(0))
			}
			for i := range bs {
				if e.decide(s, ts.Eq(bs[i], c)) {
					return ts.Const(64, uint64(i))
				}
			}
			return ts.Const(64, ^uint64(0))
		})
	case "internal/bytealg.CountString", "internal/bytealg.Count":
		return simple(func(e *Engine, s *State, gi int, args []Value) Value {
			bs := e.bytesOf(s, args[0])
			c := args[1].(*Term)
			n := 0
			for i := range bs {
				if e.decide(s, ts.Eq(bs[i], c)) {
					n++
				}
			}
			return ts.Const(64, uint64(n))
		})
	case "internal/bytealg.IndexString", "internal/bytealg.Index":
		return simple(func(e *Engine, s *State, gi int, args []Value) Value {
			a, b := e.bytesOf(s, args[0]), e.bytesOf(s, args[1])
			for i := 0; i+len(b) <= len(a); i++ {
				eq := ts.True
				for j := range b {
					eq = ts.And(eq, ts.Eq(a[i+j], b[j]))
				}
				if e.decide(s, eq) {
					return ts.Const(64, uint64(i))
				}
			}
			return ts.Const(64, ^uint64(0))
		})
	case "internal/bytealg.Equal", "bytes.Equal":
		return simple(func(e *Engine, s *State, gi int, args []Value) Value {
			a, b := e.bytesOf(s, args[0]), e.bytesOf(s, args[1])
			if len(a) != len(b) {
				return ts.False
			}
			eq := ts.True
			for i := range a {
				eq = ts.And(eq, ts.Eq(a[i], b[i]))
			}
			return eq
		})
	case "internal/bytealg.Compare", "internal/bytealg.CompareString", "strings.Compare", "bytes.Compare", "runtime.cmpstring":
		return simple(func(e *Engine, s *State, gi int, args []Value) Value {
			a, b := e.bytesOf(s, args[0]), e.bytesOf(s, args[1])
			for i := 0; i < len(a) && i < len(b); i++ {
				if e.decide(s, ts.Eq(a[i], b[i])) {
					continue
				}
				if e.decide(s, ts.Cmp(OpUlt, a[i], b[i])) {
					return ts.Const(64, ^uint64(0))
				}
				return ts.Const(64, 1)
			}
			switch {
			case len(a) < len(b):
				return ts.Const(64, ^uint64(0))
			case len(a) > len(b):
				return ts.Const(64, 1)
			}
			return ts.Const(64, 0)
		})
	case "internal/bytealg.MakeNoZero":
		return simple(func(e *Engine, s *State, gi int, args []Value) Value {
			n := e.concreteInt(args[0], "MakeNoZero length")
			el := make([]Value, n)
			for i := range el {
				el[i] = ts.Const(8, 0)
			}
			id := s.alloc(&Object{v: &ArrayV{el}, label: "MakeNoZero"})
			return Slice{obj: id, ln: n, cap: n}
		})
	case "(*strings.Builder).copyCheck":
		return simple(func(e *Engine, s *State, gi int, args []Value) Value { return nil })
	case "(*strings.Builder).String":
		path := e.structFieldPath(recvElem(fi), "buf")
		return simple(func(e *Engine, s *State, gi int, args []Value) Value {
			sl := e.load(s, subPtr(args[0].(Ptr), path)).(Slice)
			return mkStr(e.bytesOf(s, sl))
		})
	// ---- timers: channels that fire (close) only when the harness has armed timers
	case "time.After", "time.Tick":
		return simple(func(e *Engine, s *State, gi int, args []Value) Value {
			id, o := e.newCtx(s, e.bgCtx, "time.After")
			o.ctx.hasDeadline = true
			o.ctx.deadline = ts.Const(64, 0)
			o.ctx.armed = s.timers
			return ChanV{obj: e.obj(s, id).ctx.done}
		})
	case "time.NewTimer", "time.AfterFunc":
		isAF := name == "time.AfterFunc"
		return simple(func(e *Engine, s *State, gi int, args []Value) Value {
			id, o := e.newCtx(s, e.bgCtx, name)
			o.ctx.hasDeadline = true
			o.ctx.deadline = ts.Const(64, 0)
			o.ctx.armed = s.timers
			if isAF {
				o.ctx.afterFuncs = append(o.ctx.afterFuncs, args[1].(*FuncV))
			}
			tt := fi.fn.Signature.Results().At(0).Type().Underlying().(*types.Pointer).Elem()
			tv := e.zero(tt).(*StructV)
			st := tt.Underlying().(*types.Struct)
			f := append([]Value(nil), tv.f...)
			for i := 0; i < st.NumFields(); i++ {
				if st.Field(i).Name() == "C" && !isAF {
					f[i] = ChanV{obj: e.obj(s, id).ctx.done}
				}
			}
			tid := s.alloc(&Object{v: &StructV{f}, label: "time.Timer"})
			e.timerCtx(s)[tid] = id
			return Ptr{obj: tid}
		})
	case "time.runtimeNano":
		return simple(func(e *Engine, s *State, gi int, args []Value) Value { return ts.Const(64, 1) })
	case "time.NewTicker":
		// a ticker that never ticks within the explored window (periodic wake-ups are outside the
		// bound, like unarmed timers)
		return simple(func(e *Engine, s *State, gi int, args []Value) Value {
			tt := fi.fn.Signature.Results().At(0).Type().Underlying().(*types.Pointer).Elem()
			tv := e.zero(tt).(*StructV)
			st := tt.Underlying().(*types.Struct)
			f := append([]Value(nil), tv.f...)
			for i := 0; i < st.NumFields(); i++ {
				if st.Field(i).Name() == "C" {
					f[i] = ChanV{obj: s.alloc(&Object{ch: &ChanData{cap: 1}, label: "ticker.C"})}
				}
			}
			return Ptr{obj: s.alloc(&Object{v: &StructV{f}, label: "time.Ticker"})}
		})
	case "(*time.Ticker).Stop", "(*time.Ticker).Reset":
		return simple(func(e *Engine, s *State, gi int, args []Value) Value { return nil })
	case "(*time.Timer).Stop":
		return visible(func(e *Engine, s *State, gi int, args []Value) Value {
			cid, ok := e.timerCtx(s)[args[0].(Ptr).obj]
			if !ok {
				return ts.False
			}
			o := e.obj(s, cid)
			if o.ctx.isDone || !o.ctx.armed && len(o.ctx.afterFuncs) == 0 && !o.ctx.hasDeadline {
				return ts.False
			}
			w := e.wobj(s, cid)
			was := !w.ctx.isDone
			w.ctx.armed = false
			w.ctx.afterFuncs = nil
			return ts.Bool(was)
		})
	case "(*time.Timer).Reset":
		return visible(func(e *Engine, s *State, gi int, args []Value) Value { return ts.True })
	case "runtime.Gosched":
		return visible(func(e *Engine, s *State, gi int, args []Value) Value { return nil })
	case "runtime.KeepAlive":
		return simple(func(e *Engine, s *State, gi int, args []Value) Value { return nil })
	// ---- protobuf
	case "google.golang.org/protobuf/proto.Clone":
		return simple(func(e *Engine, s *State, gi int, args []Value) Value {
			m := args[0].(Iface)
			if m.t == nil {
				return m
			}
			return Iface{t: m.t, v: e.deepClone(s, m.v, map[int]int{})}
		})
	}
	if strings.HasPrefix(name, "slices.overlaps[") {
		// unsafe pointer arithmetic in the original: do two slices share memory?
		return simple(func(e *Engine, s *State, gi int, args []Value) Value {
			a, b := args[0].(Slice), args[1].(Slice)
			if a.obj == 0 || b.obj == 0 || a.obj != b.obj || len(a.path) != len(b.path) || a.ln == 0 || b.ln == 0 {
				return ts.False
			}
			for i := range a.path {
				if a.path[i] != b.path[i] {
					return ts.False
				}
			}
			return ts.Bool(a.off < b.off+b.ln && b.off < a.off+a.ln)
		})
	}
	// ---- sync/atomic typed values: (*atomic.Int64).Load etc.
	if strings.HasPrefix(name, "(*sync/atomic.") {
		if n := e.atomicTyped(fi); n != nil {
			return n
		}
	}
	if n := e.ctxNative(fi); n != nil {
		return n
	}
	if n := e.zerologNative(fi); n != nil {
		return n
	}
	if n := e.protoNative(fi); n != nil {
		return n
	}
	return nil
}

var shimRedirects = map[string]string{
	"fmt.Sprintf":      "vfSprintf",
	"fmt.Errorf":       "vfErrorf",
	"fmt.Sprint":       "vfSprint",
	"sort.Slice":       "vfSortSlice",
	"sort.SliceStable": "vfSortSlice",
	"errors.Is":        "vfErrorsIs",
	"errors.As":        "vfErrorsAs",
	"google.golang.org/grpc/encoding.GetCodecV2": "vfGetCodecV2",
	"google.golang.org/grpc/status.Errorf":       "vfStatusErrorf",
	"(*github.com/coder/websocket.Conn).Read":    "vfWsRead",
	"(*github.com/coder/websocket.Conn).Write":   "vfWsWrite",
	"net/http.Error":        "vfHttpError",
	"net/http.NewRequest":   "vfHttpNewRequest",
	"(net/http.Header).Add": "vfHttpHeaderAdd",
	"(*net/http.Client).Do": "vfHttpDo",
}

func (e *Engine) shimFn(name string) *ssa.Function {
	if f, ok := e.shimCache[name]; ok {
		return f
	}
	var f *ssa.Function
	if p := e.p.pkgs["github.com/avos-io/goat/internal"]; p != nil {
		f = p.Func(name)
	}
	e.shimCache[name] = f
	return f
}

func (e *Engine) atomicTyped(fi *FnInfo) *Native {
	name := fi.name
	ts := e.ts
	i := strings.LastIndex(name, ").")
	if i < 0 {
		return nil
	}
	meth := name[i+2:]
	if k := strings.Index(meth, "["); k >= 0 {
		meth = meth[:k] // generic instantiation: (*atomic.Pointer[T]).Load[T]
	}
	rt := recvElem(fi)
	st, ok := rt.Underlying().(*types.Struct)
	if !ok {
		return nil
	}
	// locate value field "v"
	vi := -1
	for k := 0; k < st.NumFields(); k++ {
		if st.Field(k).Name() == "v" {
			vi = k
		}
	}
	if vi < 0 {
		return nil
	}
	path := []int{vi}
	vt := st.Field(vi).Type()
	switch meth {
	case "Load":
		return visible(func(e *Engine, s *State, gi int, args []Value) Value {
			e.raceBoth(s, gi, "at"+ptrKey(subPtr(args[0].(Ptr), path)))
			v := e.load(s, subPtr(args[0].(Ptr), path))
			if isBoolT(fi.fn.Signature.Results().At(0).Type()) {
				return ts.Not(ts.Eq(v.(*Term), ts.Const(v.(*Term).w, 0)))
			}
			if _, isIface := vt.Underlying().(*types.Interface); isIface {
				return v
			}
			return v
		})
	case "Store":
		return visible(func(e *Engine, s *State, gi int, args []Value) Value {
			e.raceBoth(s, gi, "at"+ptrKey(subPtr(args[0].(Ptr), path)))
			v := args[1]
			if t, ok := v.(*Term); ok && t.w == 0 {
				w, _, _ := intWidth(vt)
				v = ts.Ite(t, ts.Const(w, 1), ts.Const(w, 0))
			}
			e.store(s, subPtr(args[0].(Ptr), path), v)
			return nil
		})
	case "Add":
		return visible(func(e *Engine, s *State, gi int, args []Value) Value {
			p := subPtr(args[0].(Ptr), path)
			e.raceBoth(s, gi, "at"+ptrKey(p))
			v := ts.BV(OpAdd, e.cellInt(s, p), args[1].(*Term))
			e.store(s, p, v)
			return v
		})
	case "Swap":
		return visible(func(e *Engine, s *State, gi int, args []Value) Value {
			p := subPtr(args[0].(Ptr), path)
			e.raceBoth(s, gi, "at"+ptrKey(p))
			old := e.load(s, p)
			e.store(s, p, args[1])
			return old
		})
	case "CompareAndSwap":
		return visible(func(e *Engine, s *State, gi int, args []Value) Value {
			p := subPtr(args[0].(Ptr), path)
			e.raceBoth(s, gi, "at"+ptrKey(p))
			cur := e.load(s, p)
			if e.decide(s, e.equal(cur, args[1])) {
				e.store(s, p, args[2])
				return ts.True
			}
			return ts.False
		})
	}
	return nil
}

// ---- time --------------------------------------------------------------------------

func (e *Engine) timeVal(t types.Type, ns *Term) Value {
	st := t.Underlying().(*types.Struct)
	f := make([]Value, st.NumFields())
	for i := range f {
		f[i] = e.zero(st.Field(i).Type())
		if st.Field(i).Name() == "ext" {
			f[i] = ns
		}
	}
	return &StructV{f}
}

func (e *Engine) timeNs(v Value) *Term {
	sv := v.(*StructV)
	return sv.f[1].(*Term) // wall, ext, loc
}

func (e *Engine) now(s *State) *Term {
	ts := e.ts
	if s.frozen && s.clock != nil {
		return s.clock
	}
	s.nclock++
	t := ts.Var(fmt.Sprintf("now!%d", s.nclock), 64)
	e.registerVar(t)
	if s.model != nil {
		// extend the cached model with a consistent value for the new instant
		nm := make(Model, len(s.model)+1)
		for k, v := range s.model {
			nm[k] = v
		}
		var v uint64 = 1 << 40
		if s.clock != nil {
			memo := map[int]uint64{}
			v = ts.Eval(s.clock, s.model, memo)
		}
		nm[t.name] = v
		s.model = nm
	}
	if s.clock == nil {
		e.pcAdd(s, ts.Cmp(OpSle, ts.Const(64, 1<<40), t))
	} else {
		e.pcAdd(s, ts.Cmp(OpSle, s.clock, t))
	}
	e.pcAdd(s, ts.Cmp(OpSle, t, ts.Const(64, 1<<60)))
	s.clock = t
	return t
}

func (e *Engine) registerVar(t *Term) {
	if _, ok := e.nondetVars[t.name]; !ok {
		e.nondetVars[t.name] = t.w
		e.nondetOrder = append(e.nondetOrder, t.name)
	}
}

// ---- deep clone (proto.Clone, wire snapshots) --------------------------------------

func (e *Engine) deepClone(s *State, v Value, memo map[int]int) Value {
	switch x := v.(type) {
	case Ptr:
		if x.obj == 0 {
			return x
		}
		if len(x.path) != 0 {
			unsup("deep clone of interior pointer")
		}
		if n, ok := memo[x.obj]; ok {
			return Ptr{obj: n}
		}
		o := e.obj(s, x.obj)
		if o.m != nil || o.ch != nil || o.ctx != nil {
			return x
		}
		id := s.alloc(&Object{label: o.label + "(clone)"})
		memo[x.obj] = id
		nv := e.deepClone(s, o.v, memo)
		e.wobj(s, id).v = nv
		return Ptr{obj: id}
	case Slice:
		if x.obj == 0 {
			return x
		}
		arr := e.sliceArr(s, x)
		el := make([]Value, x.ln)
		for i := 0; i < x.ln; i++ {
			el[i] = e.deepClone(s, arr.e[x.off+i], memo)
		}
		id := s.alloc(&Object{v: &ArrayV{el}, label: "clone"})
		return Slice{obj: id, ln: x.ln, cap: x.ln}
	case *StructV:
		f := make([]Value, len(x.f))
		for i := range f {
			f[i] = e.deepClone(s, x.f[i], memo)
		}
		return &StructV{f}
	case *ArrayV:
		el := make([]Value, len(x.e))
		for i := range el {
			el[i] = e.deepClone(s, x.e[i], memo)
		}
		return &ArrayV{el}
	}
	return v
}

// ---- zerolog -------------------------------------------------------------------------

var zlLevels = map[string]int{"Trace": 0, "Debug": 1, "Info": 2, "Warn": 3, "Error": 4, "Fatal": 5, "Panic": 6, "Err": 4, "Log": 2, "Print": 2, "Printf": 2}

func (e *Engine) zerologNative(fi *FnInfo) *Native {
	name := fi.name
	const lp = "github.com/rs/zerolog/log."
	if strings.HasPrefix(name, lp) {
		fn := name[len(lp):]
		if lvl, ok := zlLevels[fn]; ok {
			res := fi.fn.Signature.Results()
			if res.Len() == 0 {
				return simple(func(e *Engine, s *State, gi int, args []Value) Value { return nil })
			}
			return simple(func(e *Engine, s *State, gi int, args []Value) Value {
				return Ptr{obj: e.logEventObj[lvl]}
			})
		}
		return nil
	}
	const ep = "(*github.com/rs/zerolog.Event)."
	if strings.HasPrefix(name, ep) {
		meth := name[len(ep):]
		switch meth {
		case "Msg", "Msgf", "Send", "MsgFunc":
			return simple(func(e *Engine, s *State, gi int, args []Value) Value {
				p := args[0].(Ptr)
				if p.obj != 0 && p.obj == e.logEventObj[6] {
					msg := "zerolog panic"
					if len(args) > 1 {
						if str, ok := args[1].(string); ok {
							msg = str
						}
					}
					e.gopanic("log.Panic: " + msg)
				}
				if p.obj != 0 && p.obj == e.logEventObj[5] {
					e.gopanic("log.Fatal (process exit)")
				}
				return nil
			})
		case "Enabled":
			return simple(func(e *Engine, s *State, gi int, args []Value) Value { return e.ts.True })
		}
		// chaining methods return the receiver
		if fi.fn.Signature.Results().Len() == 1 {
			return simple(func(e *Engine, s *State, gi int, args []Value) Value { return args[0] })
		}
	}
	return nil
}

// ---- harness intrinsics ---------------------------------------------------------------

func (e *Engine) freshVar(s *State, gi int, label Value, w int) *Term {
	g := s.wg(gi)
	l, _ := label.(string)
	name := fmt.Sprintf("%s@%s#%d", l, g.id, g.nnondet)
	g.nnondet++
	t := e.ts.Var(name, w)
	e.registerVar(t)
	if e.replay != nil {
		return e.ts.Const(w, e.replay.Model[name])
	}
	return t
}

func (e *Engine) intrinsic(fi *FnInfo) *Native {
	ts := e.ts
	switch fi.fn.Name() {
	case "vfBool":
		return simple(func(e *Engine, s *State, gi int, args []Value) Value {
			return e.freshVar(s, gi, args[0], 0)
		})
	case "vfByte":
		return simple(func(e *Engine, s *State, gi int, args []Value) Value {
			return e.freshVar(s, gi, args[0], 8)
		})
	case "vfInt32", "vfUint32":
		return simple(func(e *Engine, s *State, gi int, args []Value) Value {
			return e.freshVar(s, gi, args[0], 32)
		})
	case "vfInt64", "vfUint64", "vfInt":
		return simple(func(e *Engine, s *State, gi int, args []Value) Value {
			return e.freshVar(s, gi, args[0], 64)
		})
	case "vfString", "vfBytes":
		isStr := fi.fn.Name() == "vfString"
		return simple(func(e *Engine, s *State, gi int, args []Value) Value {
			n := e.concreteInt(args[1], "nondet string length")
			g := s.wg(gi)
			l, _ := args[0].(string)
			base := fmt.Sprintf("%s@%s#%d", l, g.id, g.nnondet)
			g.nnondet++
			bs := make([]*Term, n)
			for i := range bs {
				nm := fmt.Sprintf("%s[%d]", base, i)
				t := ts.Var(nm, 8)
				e.registerVar(t)
				if e.replay != nil {
					t = ts.Const(8, e.replay.Model[nm])
				}
				bs[i] = t
			}
			if isStr {
				return mkStr(bs)
			}
			el := make([]Value, n)
			for i := range el {
				el[i] = bs[i]
			}
			id := s.alloc(&Object{v: &ArrayV{el}, label: "vfBytes"})
			return Slice{obj: id, ln: n, cap: n}
		})
	case "vfChoice":
		return simple(func(e *Engine, s *State, gi int, args []Value) Value {
			n := e.concreteInt(args[1], "choice arity")
			l, _ := args[0].(string)
			c := e.choose(s, n, "choice", l)
			s.addTrail("choice", c, n, l)
			return ts.Const(64, uint64(c))
		})
	case "vfAssume":
		return simple(func(e *Engine, s *State, gi int, args []Value) Value {
			c := args[0].(*Term)
			if c.IsTrue() {
				return nil
			}
			if c.IsFalse() {
				panic(pathEnd{"assume false"})
			}
			if e.replay != nil {
				memo := map[int]uint64{}
				if e.ts.Eval(c, e.replay.Model, memo) != 1 {
					panic(pathEnd{"assume false"})
				}
				return nil
			}
			if e.feasible(s, c) == Unsat {
				e.assumeFailed[e.whereAmI(s, gi)]++
				panic(pathEnd{"assume infeasible"})
			}
			e.pcAdd(s, c)
			return nil
		})
	case "vfAssert":
		return simple(func(e *Engine, s *State, gi int, args []Value) Value {
			c := args[0].(*Term)
			label, _ := args[1].(string)
			e.checkAssert(s, gi, c, label)
			return nil
		})
	case "vfFail":
		return simple(func(e *Engine, s *State, gi int, args []Value) Value {
			label, _ := args[0].(string)
			e.checkAssert(s, gi, ts.False, label)
			return nil
		})
	case "vfReach":
		return simple(func(e *Engine, s *State, gi int, args []Value) Value {
			label, _ := args[0].(string)
			e.reach[label]++
			return nil
		})
	case "vfParam":
		return simple(func(e *Engine, s *State, gi int, args []Value) Value {
			nm, _ := args[0].(string)
			if v, ok := e.params[nm]; ok {
				return ts.Const(64, uint64(int64(v)))
			}
			e.paramsUsed[nm] = e.concreteInt(args[1], "param default")
			return args[1]
		})
	case "vfLock", "vfUnlock":
		return simple(func(e *Engine, s *State, gi int, args []Value) Value { return nil })
	case "vfAtQuiescence":
		return simple(func(e *Engine, s *State, gi int, args []Value) Value {
			s.quiesce = append(s.quiesce, args[0].(*FuncV))
			return nil
		})
	case "vfYield":
		return visible(func(e *Engine, s *State, gi int, args []Value) Value { return nil })
	case "vfCensus":
		return simple(func(e *Engine, s *State, gi int, args []Value) Value {
			n := 0
			for _, g := range s.gs {
				if !g.done && !g.harness {
					n++
				}
			}
			return ts.Const(64, uint64(n))
		})
	case "vfCensusList":
		return simple(func(e *Engine, s *State, gi int, args []Value) Value {
			var parts []string
			for _, g := range s.gs {
				if !g.done && !g.harness {
					parts = append(parts, g.name)
				}
			}
			return strings.Join(parts, ";")
		})
	case "vfHarnessGoroutine":
		return simple(func(e *Engine, s *State, gi int, args []Value) Value {
			s.wg(gi).harness = true
			return nil
		})
	case "vfFreezeClock":
		return simple(func(e *Engine, s *State, gi int, args []Value) Value {
			s.frozen = args[0].(*Term).IsTrue()
			return nil
		})
	case "vfArmTimers":
		// contexts with a deadline created while armed may expire at any scheduling point
		return simple(func(e *Engine, s *State, gi int, args []Value) Value {
			s.timers = len(args) == 0 || args[0].(*Term).IsTrue()
			return nil
		})
	case "vfNote":
		return simple(func(e *Engine, s *State, gi int, args []Value) Value {
			if str, ok := args[0].(string); ok {
				s.event("note: " + str)
			}
			return nil
		})
	case "vfItoa":
		return simple(func(e *Engine, s *State, gi int, args []Value) Value {
			return e.itoa(s, gi, args[0].(*Term))
		})
	case "vfIfaceEq":
		return simple(func(e *Engine, s *State, gi int, args []Value) Value {
			return e.equal(args[0], args[1])
		})
	case "vfAsAssign":
		return simple(func(e *Engine, s *State, gi int, args []Value) Value {
			errv := args[0].(Iface)
			tgt := args[1].(Iface)
			if errv.t == nil || tgt.t == nil {
				return ts.False
			}
			pt, ok := tgt.t.Underlying().(*types.Pointer)
			if !ok {
				e.gopanic("errors: target must be a non-nil pointer")
			}
			et := pt.Elem()
			if it, isI := et.Underlying().(*types.Interface); isI {
				if !e.implements(errv.t, it) {
					return ts.False
				}
				e.store(s, tgt.v.(Ptr), errv)
				return ts.True
			}
			if types.Identical(errv.t, et) {
				e.store(s, tgt.v.(Ptr), errv.v)
				return ts.True
			}
			return ts.False
		})
	case "vfFieldLen":
		// vfFieldLen(x, "a.b.c"): len of the map/slice/chan reached from pointer x through the named
		// (possibly unexported) fields, dereferencing pointers on the way; -1 when the tree under
		// analysis has no such field (renamed internals: the caller's oracle degrades, see vfNote)
		return simple(func(e *Engine, s *State, gi int, args []Value) Value {
			cur, _, ok := e.peekPath(s, args[0].(Iface), args[1].(string))
			if !ok {
				return ts.Const(64, ^uint64(0))
			}
			switch v := cur.(type) {
			case MapV:
				if v.obj == 0 {
					return ts.Const(64, 0)
				}
				return ts.Const(64, uint64(len(e.obj(s, v.obj).m.keys)))
			case Slice:
				return ts.Const(64, uint64(v.ln))
			case ChanV:
				if v.obj == 0 {
					return ts.Const(64, 0)
				}
				return ts.Const(64, uint64(len(e.obj(s, v.obj).ch.buf)))
			}
			return ts.Const(64, ^uint64(0))
		})
	case "vfHeapFieldLen":
		// vfHeapFieldLen("handler", "streams"): sum of len(field) over every allocated struct whose
		// named type is called so; -1 when the tree has no such type or field (or none was allocated)
		return simple(func(e *Engine, s *State, gi int, args []Value) Value {
			tn, _ := args[0].(string)
			path, _ := args[1].(string)
			total, found := 0, false
			for id := 1; id < len(s.heap); id++ {
				o := s.heap[id]
				if o == nil || o.typ == nil {
					continue
				}
				nt, ok := o.typ.(*types.Named)
				if !ok || nt.Obj().Name() != tn {
					continue
				}
				cur, _, ok := e.peekPath(s, Iface{t: types.NewPointer(o.typ), v: Ptr{obj: id}}, path)
				if !ok {
					continue
				}
				switch v := cur.(type) {
				case MapV:
					found = true
					if v.obj != 0 {
						total += len(e.obj(s, v.obj).m.keys)
					}
				case Slice:
					found = true
					total += v.ln
				}
			}
			if !found {
				return ts.Const(64, ^uint64(0))
			}
			return ts.Const(64, uint64(total))
		})
	case "vfMapHas", "vfMapFieldIs":
		// vfMapHas(x, "path.to.map", key) / vfMapFieldIs(x, path, key, field, want): look into an
		// internal table by field NAME: -1 when the names do not resolve on this tree, else 0/1.
		isField := fi.fn.Name() == "vfMapFieldIs"
		return simple(func(e *Engine, s *State, gi int, args []Value) Value {
			cur, t, ok := e.peekPath(s, args[0].(Iface), args[1].(string))
			neg := ts.Const(64, ^uint64(0))
			if !ok {
				return neg
			}
			mv, isMap := cur.(MapV)
			mt, isMT := t.Underlying().(*types.Map)
			if !isMap || !isMT {
				return neg
			}
			if isField {
				// resolve the field statically first, so that a renamed field is reported as -1
				et := mt.Elem()
				if pt, ok := et.Underlying().(*types.Pointer); ok {
					et = pt.Elem()
				}
				st, ok := et.Underlying().(*types.Struct)
				if !ok {
					return neg
				}
				found := false
				for i := 0; i < st.NumFields(); i++ {
					if st.Field(i).Name() == args[3].(string) {
						found = true
					}
				}
				if !found {
					return neg
				}
			}
			if mv.obj == 0 {
				return ts.Const(64, 0)
			}
			md := e.obj(s, mv.obj).m
			idx := -1
			for i, mk := range md.keys {
				if sameKey(mk, args[2]) {
					idx = i
				}
			}
			if idx < 0 {
				return ts.Const(64, 0)
			}
			if !isField {
				return ts.Const(64, 1)
			}
			var v Value = md.vals[idx]
			vt := mt.Elem()
			if pt, ok := vt.Underlying().(*types.Pointer); ok {
				p := v.(Ptr)
				if p.obj == 0 {
					return ts.Const(64, 0)
				}
				v = e.load(s, p)
				vt = pt.Elem()
			}
			st := vt.Underlying().(*types.Struct)
			for i := 0; i < st.NumFields(); i++ {
				if st.Field(i).Name() == args[3].(string) {
					fv := v.(*StructV).f[i]
					if eq := e.equal(fv, args[4]); eq.IsTrue() {
						return ts.Const(64, 1)
					}
					return ts.Const(64, 0)
				}
			}
			return neg
		})
	case "vfFieldGetUint", "vfFieldSetUint":
		// read / write an integer field reached through named (possibly unexported) fields; works for
		// plain integers and for sync/atomic typed integers (their "v" field)
		isSet := fi.fn.Name() == "vfFieldSetUint"
		return simple(func(e *Engine, s *State, gi int, args []Value) Value {
			x := args[0].(Iface)
			path, _ := args[1].(string)
			ptr := x.v.(Ptr)
			t := x.t.Underlying().(*types.Pointer).Elem()
			for _, name := range strings.Split(path, ".") {
				st, ok := t.Underlying().(*types.Struct)
				if !ok {
					if isSet {
						return ts.False
					}
					return ts.Const(64, 0)
				}
				idx := -1
				for i := 0; i < st.NumFields(); i++ {
					if st.Field(i).Name() == name {
						idx = i
					}
				}
				if idx < 0 {
					if isSet {
						return ts.False
					}
					return ts.Const(64, 0)
				}
				ptr = subPtr(ptr, []int{idx})
				t = st.Field(idx).Type()
			}
			if st, ok := t.Underlying().(*types.Struct); ok {
				// atomic.Uint64 and friends
				for i := 0; i < st.NumFields(); i++ {
					if st.Field(i).Name() == "v" {
						ptr = subPtr(ptr, []int{i})
						t = st.Field(i).Type()
					}
				}
			}
			w, _, ok := intWidth(t)
			if !ok {
				if isSet {
					return ts.False
				}
				return ts.Const(64, 0)
			}
			if isSet {
				e.store(s, ptr, e.toW(args[2].(*Term), w, false))
				return ts.True
			}
			return e.toW(e.load(s, ptr).(*Term), 64, false)
		})
	case "vfSliceLenAny":
		return simple(func(e *Engine, s *State, gi int, args []Value) Value {
			x := args[0].(Iface)
			if x.t == nil {
				return ts.Const(64, 0)
			}
			return ts.Const(64, uint64(x.v.(Slice).ln))
		})
	case "vfSliceSwapAny":
		return simple(func(e *Engine, s *State, gi int, args []Value) Value {
			x := args[0].(Iface)
			sl := x.v.(Slice)
			i := e.concreteInt(args[1], "swap index")
			j := e.concreteInt(args[2], "swap index")
			if i < 0 || j < 0 || i >= sl.ln || j >= sl.ln {
				e.gopanic("reflect: slice index out of range")
			}
			pi := Ptr{obj: sl.obj, path: appendPath(sl.path, sl.off+i)}
			pj := Ptr{obj: sl.obj, path: appendPath(sl.path, sl.off+j)}
			vi, vj := e.load(s, pi), e.load(s, pj)
			e.store(s, pi, vj)
			e.store(s, pj, vi)
			return nil
		})
	case "vfTypeName":
		return simple(func(e *Engine, s *State, gi int, args []Value) Value {
			x := args[0].(Iface)
			if x.t == nil {
				return "<nil>"
			}
			return x.t.String()
		})
	case "vfIsSymbolic":
		return simple(func(e *Engine, s *State, gi int, args []Value) Value { return ts.Bool(e.replay == nil) })
	case "vfBlocked":
		// number of live non-harness goroutines (alias used at quiescence)
		return simple(func(e *Engine, s *State, gi int, args []Value) Value {
			n := 0
			for _, g := range s.gs {
				if !g.done && !g.harness {
					n++
				}
			}
			return ts.Const(64, uint64(n))
		})
	case "vfRaceMode":
		return simple(func(e *Engine, s *State, gi int, args []Value) Value { return ts.Bool(e.raceMode) })
	case "vfOrderedMaps":
		return simple(func(e *Engine, s *State, gi int, args []Value) Value {
			e.orderedMaps = args[0].(*Term).IsTrue()
			return nil
		})
	}
	return nil
}

func (e *Engine) checkAssert(s *State, gi int, c *Term, label string) {
	ts := e.ts
	e.stats.VCs++
	if c.IsTrue() {
		e.stats.VCsFolded++
		return
	}
	site := e.siteOf(s, gi)
	if e.replay != nil {
		memo := map[int]uint64{}
		if c.IsFalse() || ts.Eval(c, e.replay.Model, memo) != 1 {
			e.report(s, "assert", label, site, "assertion failed: "+label, nil, nil)
			panic(pathEnd{"assert"})
		}
		return
	}
	if c.IsFalse() {
		e.stats.VCsFolded++
		e.report(s, "assert", label, site, "assertion failed: "+label, nil, nil)
		panic(pathEnd{"assert"})
	}
	e.stats.VCsSolver++
	nc := ts.Not(c)
	r := e.feasible(s, nc)
	switch r {
	case Unsat:
		e.pcAdd(s, c)
	case Sat:
		e.report(s, "assert", label, site, "assertion failed: "+label, nc, nil)
		// continue on the side where it holds (if feasible)
		if e.feasible(s, c) == Unsat {
			panic(pathEnd{"assert"})
		}
		e.pcAdd(s, c)
	default:
		e.markIncomplete("UNDECIDED VC: " + label)
		e.pcAdd(s, c)
	}
}

// itoa produces the decimal string of a 64-bit signed term. For symbolic terms the
// digit count is case-split and the digits are introduced by constraint.
func (e *Engine) itoa(s *State, gi int, x *Term) Value {
	ts := e.ts
	if x.IsConst() {
		return fmt.Sprintf("%d", x.SVal())
	}
	if e.replay != nil {
		memo := map[int]uint64{}
		return fmt.Sprintf("%d", int64(ts.Eval(x, e.replay.Model, memo)))
	}
	if e.decide(s, ts.Cmp(OpSlt, x, ts.Const(64, 0))) {
		unsup("itoa of negative symbolic integer")
	}
	// number of digits: 1..19
	pow := uint64(10)
	k := 1
	for ; k < 19; k++ {
		if e.decide(s, ts.Cmp(OpUlt, x, ts.Const(64, pow))) {
			break
		}
		pow *= 10
	}
	g := s.wg(gi)
	base := fmt.Sprintf("itoa@%s#%d", g.id, g.nnondet)
	g.nnondet++
	digits := make([]*Term, k)
	sum := ts.Const(64, 0)
	for i := 0; i < k; i++ {
		d := ts.Var(fmt.Sprintf("%s[%d]", base, i), 8)
		e.registerVar(d)
		digits[i] = d
		e.pcAdd(s, ts.And(ts.Cmp(OpUle, ts.Const(8, '0'), d), ts.Cmp(OpUle, d, ts.Const(8, '9'))))
		dv := ts.ZExt(64, ts.BV(OpSub, d, ts.Const(8, '0')))
		sum = ts.BV(OpAdd, ts.BV(OpMul, sum, ts.Const(64, 10)), dv)
	}
	e.pcAdd(s, ts.Eq(sum, x))
	if k > 1 {
		e.pcAdd(s, ts.Not(ts.Eq(digits[0], ts.Const(8, '0'))))
	}
	return mkStr(digits)
}

var _ = os.Stderr

// bytesOf returns the byte terms of a string or []byte value.
func (e *Engine) bytesOf(s *State, v Value) []*Term {
	switch x := v.(type) {
	case string, *SymStr:
		return e.strBytes(v)
	case Slice:
		if x.obj == 0 {
			return nil
		}
		arr := e.sliceArr(s, x)
		out := make([]*Term, x.ln)
		for i := 0; i < x.ln; i++ {
			out[i] = arr.e[x.off+i].(*Term)
		}
		return out
	}
	panic(engineErr(fmt.Sprintf("bytesOf: %T", v)))
}

// timerCtx maps time.Timer objects to their hidden expiry context (engine-wide table keyed by
// object id; ids are per path but the table is only consulted within the path that created them).
func (e *Engine) timerCtx(s *State) map[int]int {
	if s.timersMap == nil {
		s.timersMap = map[int]int{}
	}
	return s.timersMap
}

// peekPath follows named (possibly unexported) fields from x, dereferencing pointers on the way.
// ok is false when a name does not exist on the tree under analysis.
func (e *Engine) peekPath(s *State, x Iface, path string) (Value, types.Type, bool) {
	if x.t == nil {
		return nil, nil, false
	}
	var cur Value = x.v
	t := x.t
	for _, name := range strings.Split(path, ".") {
		for {
			pt, ok := t.Underlying().(*types.Pointer)
			if !ok {
				break
			}
			p, isP := cur.(Ptr)
			if !isP || p.obj == 0 {
				return nil, nil, false
			}
			cur = e.load(s, p)
			t = pt.Elem()
		}
		st, ok := t.Underlying().(*types.Struct)
		if !ok {
			return nil, nil, false
		}
		idx := -1
		for i := 0; i < st.NumFields(); i++ {
			if st.Field(i).Name() == name {
				idx = i
			}
		}
		if idx < 0 {
			return nil, nil, false
		}
		cur = cur.(*StructV).f[idx]
		t = st.Field(idx).Type()
	}
	return cur, t, true
}

func (e *Engine) rtypeVal(t types.Type) Value {
	if e.rtypes == nil {
		e.rtypes = map[string]types.Type{}
	}
	if e.rtypeT == nil {
		e.rtypeT = types.NewPointer(e.p.pkgs["reflect"].Type("rtype").Type())
	}
	k := t.String()
	e.rtypes[k] = t
	return Iface{t: e.rtypeT, v: k}
}

func (e *Engine) rtypeOf(v Value) types.Type {
	k, ok := v.(string)
	if !ok {
		unsup("reflect.Type value outside the model")
	}
	t := e.rtypes[k]
	if t == nil {
		unsup("reflect.Type %s not interned", k)
	}
	return t
}

// recvElemOfParam: the struct type the i-th (pointer) parameter points to.
func recvElemOfParam(fi *FnInfo, i int) types.Type {
	return fi.fn.Signature.Params().At(i).Type().Underlying().(*types.Pointer).Elem()
}
