package main

import (
	"flag"
	"fmt"
	"os"
	"runtime/pprof"
	"sort"
	"strconv"
	"strings"
	"time"
)

func parseParams(s string) map[string]int {
	m := map[string]int{}
	for _, kv := range strings.Split(s, ",") {
		if kv == "" {
			continue
		}
		p := strings.SplitN(kv, "=", 2)
		if len(p) != 2 {
			continue
		}
		v, _ := strconv.Atoi(p[1])
		m[p[0]] = v
	}
	return m
}

func main() {
	if len(os.Args) < 2 {
		fmt.Fprintln(os.Stderr, "usage: goatsym run|list|check|replay ...")
		os.Exit(2)
	}
	switch os.Args[1] {
	case "run":
		cmdRun(os.Args[2:])
	case "list":
		cmdList(os.Args[2:])
	case "check":
		cmdCheck(os.Args[2:])
	case "replay":
		cmdReplay(os.Args[2:])
	default:
		fmt.Fprintln(os.Stderr, "unknown command", os.Args[1])
		os.Exit(2)
	}
}

func cmdList(args []string) {
	fs := flag.NewFlagSet("list", flag.ExitOnError)
	repo := fs.String("repo", "/repo", "repository")
	hd := fs.String("harness-dir", "/verif/harness", "harness directory")
	fs.Parse(args)
	p, err := loadProgram(*repo, *hd)
	if err != nil {
		fmt.Fprintln(os.Stderr, "load:", err)
		os.Exit(2)
	}
	var names []string
	for n := range p.harness {
		names = append(names, n)
	}
	sort.Strings(names)
	for _, n := range names {
		fmt.Println(n)
	}
}

func cmdRun(args []string) {
	fs := flag.NewFlagSet("run", flag.ExitOnError)
	repo := fs.String("repo", "/repo", "repository")
	hd := fs.String("harness-dir", "/verif/harness", "harness directory")
	h := fs.String("H", "", "harness entry point")
	params := fs.String("p", "", "params k=v,k=v")
	trace := fs.Bool("trace", false, "trace execution")
	out := fs.String("out", "-", "result file")
	maxSteps := fs.Int("max-steps", 2000000, "instruction bound per path")
	maxSched := fs.Int("max-sched", 5000, "scheduler step bound per path")
	budget := fs.Int("budget", 0, "wall-clock budget in seconds (0: none)")
	nocache := fs.Bool("nocache", false, "disable state caching")
	cross := fs.Bool("crosscheck", false, "cross-check solver verdicts with a second back end")
	race := fs.Bool("race", false, "race mode")
	prof := fs.String("cpuprofile", "", "write cpu profile")
	cexOut := fs.String("cex", "", "write the first counterexample to this file")
	fs.Parse(args)
	t0 := time.Now()
	if *prof != "" {
		f, _ := os.Create(*prof)
		pprof.StartCPUProfile(f)
		defer pprof.StopCPUProfile()
	}
	p, err := loadProgram(*repo, *hd)
	if err != nil {
		fmt.Fprintln(os.Stderr, "load:", err)
		os.Exit(2)
	}
	p.loadSecs = time.Since(t0).Seconds()
	e := NewEngine(p)
	e.trace = *trace
	e.maxSteps = *maxSteps
	e.maxSched = *maxSched
	e.noCache = *nocache
	e.raceMode = *race
	e.solver.Cross = *cross
	e.params = parseParams(*params)
	if *budget > 0 {
		e.deadlineAt = time.Now().Unix() + int64(*budget)
	}
	defer e.solver.Close()
	if err := e.buildInitState(); err != nil {
		fmt.Fprintln(os.Stderr, "init:", err)
		os.Exit(2)
	}
	if os.Getenv("GOATSYM_FORKS") != "" {
		e.forkSites = map[string]int{}
	}
	res := e.runHarness(*h)
	if *cexOut != "" && len(res.Violations) > 0 {
		v := res.Violations[0]
		writeJSON(*cexOut, &CexFile{Property: "adhoc", Harness: *h, Params: e.params, Conc: true, Violation: v, Nondet: v.Nondet, Trail: v.Trail})
	}
	if e.forkSites != nil {
		type kv struct {
			k string
			v int
		}
		var l []kv
		for k, v := range e.forkSites {
			l = append(l, kv{k, v})
		}
		sort.Slice(l, func(i, j int) bool { return l[i].v > l[j].v })
		for i, x := range l {
			if i < 25 {
				fmt.Fprintf(os.Stderr, "FORKS %6d %s\n", x.v, x.k)
			}
		}
	}
	writeJSON(*out, res)
	fmt.Fprintf(os.Stderr, "%s %s: paths=%d states=%d trans=%d instrs=%d vcs=%d solver=%d/%.2fs load=%.1fs wall=%.1fs\n",
		res.Harness, res.Status, res.Stats.Paths, res.Stats.States, res.Stats.Transitions, res.Stats.Instrs, res.Stats.VCs,
		res.Solver.Queries, res.Solver.WallS, p.loadSecs, res.WallS)
	for _, v := range res.Violations {
		fmt.Fprintf(os.Stderr, "  VIOLATION %s: %s\n", v.Sig, v.Msg)
	}
	for _, i := range res.Incomplete {
		fmt.Fprintf(os.Stderr, "  INCOMPLETE %s\n", i)
	}
	if res.Error != "" {
		fmt.Fprintf(os.Stderr, "  ERROR %s\n", res.Error)
	}
}
