package main

import (
	"testing"
	"unicode/utf8"
)

// decodeRuneSym against unicode/utf8 on every 1- and 2-byte sequence and on all 3/4-byte sequences
// whose bytes come from the boundary set of the UTF-8 acceptance table.
func TestDecodeRuneSymAgainstUtf8(t *testing.T) {
	e := &Engine{ts: NewTermStore()}
	check := func(bs []byte) {
		terms := make([]*Term, len(bs))
		for i, b := range bs {
			terms[i] = e.ts.Const(8, uint64(b))
		}
		r, w := e.decodeRuneSym(nil, terms)
		wr, ww := utf8.DecodeRune(bs)
		if !r.IsConst() || rune(r.val) != wr || w != ww {
			t.Fatalf("% x: got (%v,%d) want (%x,%d)", bs, r, w, wr, ww)
		}
	}
	for a := 0; a < 256; a++ {
		check([]byte{byte(a)})
		for b := 0; b < 256; b++ {
			check([]byte{byte(a), byte(b)})
		}
	}
	edge := []byte{0x00, 0x7f, 0x80, 0x8f, 0x90, 0x9f, 0xa0, 0xbf, 0xc0, 0xc1, 0xc2, 0xdf, 0xe0, 0xe1, 0xec, 0xed, 0xee, 0xef, 0xf0, 0xf1, 0xf3, 0xf4, 0xf5, 0xff}
	for _, a := range edge {
		for _, b := range edge {
			for _, c := range edge {
				check([]byte{a, b, c})
				for _, d := range edge {
					check([]byte{a, b, c, d})
				}
			}
		}
	}
}
