package main

import (
	"fmt"
	"go/types"
	"os"
	"sort"
	"strings"

	"golang.org/x/tools/go/ssa"
	"golang.org/x/tools/go/types/typeutil"
)

type Stats struct {
	Paths        int
	States       int // distinct scheduling states
	Transitions  int
	Clones       int
	CacheHits    int
	SymPruned    int
	Instrs       int
	VCs          int
	VCsFolded    int
	VCsSolver    int
	Branches     int
	SchedPoints  int
	Quiescent    int
	MaxDepth     int
}

type Violation struct {
	Sig     string   `json:"signature"`
	Kind    string   `json:"kind"` // assert | crash | quiescence | race
	Label   string   `json:"label"`
	Site    string   `json:"site"`
	Msg     string   `json:"message"`
	Model   Model    `json:"model"`
	Nondet  []NondetRec `json:"nondet"`
	Trail   []TrailRec  `json:"trail"`
	Events  []string `json:"events"`
	Blocked []string `json:"blocked,omitempty"`
	Count   int      `json:"count"`
}

type NondetRec struct {
	Name  string `json:"name"`
	Width int    `json:"width"`
	Value uint64 `json:"value"`
}

type TrailRec struct {
	Kind   string `json:"kind"`
	Choice int    `json:"choice"`
	Arity  int    `json:"arity"`
	Info   string `json:"info,omitempty"`
}

type Engine struct {
	p          *Program
	ts         *TermStore
	solver     *Solver
	fnInfos    map[*ssa.Function]*FnInfo
	constCache map[*ssa.Const]Value
	globalIDs  map[*ssa.Global]int
	globalByID []*ssa.Global // index = -id
	typeIDs    typeutil.Map
	pcNodes    map[[2]int]*PCNode
	genCtr     uint32
	feasCache  map[[2]int]Result
	visited    map[stateKey]bool
	stats      Stats
	params     map[string]int
	maxSteps   int
	maxSched   int
	maxPaths   int
	incomplete []string
	unsupportedSeen map[string]int
	reach      map[string]int
	reachSample map[string]Model
	violations map[string]*Violation
	violOrder  []string
	harness    string
	initState  *State
	initDone   map[string]bool
	replay     *ReplayInput // non-nil: concrete re-execution of a counterexample
	raceMode   bool
	trace      bool
	noCache    bool
	samples    []map[string]interface{}
	nondetVars map[string]int // name -> width, in creation order
	nondetOrder []string
	maxViolations int
	assumeFailed map[string]int
	deadlineAt   int64
	ctxT         types.Type
	rtypeT       types.Type
	uninitGlobal []bool // by -id: global whose initialiser lives in a package init the engine does not run
	rtypes       map[string]types.Type // reflect.Type payloads (canonical string -> type)
	bgCtx        int
	logEventObj  [7]int
	nativeCache  map[*FnInfo]*Native
	shimCache    map[string]*ssa.Function
	methodCache  map[methodKey]*ssa.Function
	nativeClosures map[string]*Native
	paramsUsed   map[string]int
	orderedMaps  bool
	initPkgs     map[string]bool
	uninitReads  map[string]int
	inInit       bool
	forkSites    map[string]int
	raceG        int
	sampleCex    []*CexFile
}

type ReplayInput struct {
	Model Model
	Trail []TrailRec
	pos   int
}

func NewEngine(p *Program) *Engine {
	e := &Engine{
		p:          p,
		ts:         NewTermStore(),
		fnInfos:    map[*ssa.Function]*FnInfo{},
		constCache: map[*ssa.Const]Value{},
		globalIDs:  map[*ssa.Global]int{},
		globalByID: []*ssa.Global{nil},
		uninitGlobal: []bool{false},
		pcNodes:    map[[2]int]*PCNode{},
		feasCache:  map[[2]int]Result{},
		visited:    map[stateKey]bool{},
		params:     map[string]int{},
		maxSteps:   2000000,
		maxSched:   5000,
		maxPaths:   0,
		reach:      map[string]int{},
		reachSample: map[string]Model{},
		violations: map[string]*Violation{},
		initDone:   map[string]bool{},
		unsupportedSeen: map[string]int{},
		nondetVars: map[string]int{},
		maxViolations: 50,
		assumeFailed: map[string]int{},
		nativeCache: map[*FnInfo]*Native{},
		shimCache: map[string]*ssa.Function{},
		methodCache: map[methodKey]*ssa.Function{},
		paramsUsed: map[string]int{},
		initPkgs: map[string]bool{},
		uninitReads: map[string]int{},
	}
	e.initNativeClosures()
	e.solver = NewSolver(e.ts)
	return e
}

func (e *Engine) globalID(g *ssa.Global) int {
	if id, ok := e.globalIDs[g]; ok {
		return id
	}
	id := -len(e.globalByID)
	e.globalByID = append(e.globalByID, g)
	e.globalIDs[g] = id
	e.uninitGlobal = append(e.uninitGlobal, e.p.needsInit[g])
	return id
}

// control-flow signals (raised with panic inside instruction execution) -----------

type goPanic struct{ msg string } // a Go run-time panic raised by an instruction

type needFork struct {
	arity int
	conds []*Term // optional per-branch constraints (len == arity) or nil
	models []Model
	kind  string
	info  string
}

type pathEnd struct{ reason string }

// decide returns the truth of cond on this path, forking if both are feasible.
// s.model (when present) is a model of the path condition: the side it satisfies
// needs no query.
func (e *Engine) decide(s *State, cond *Term) bool {
	if cond.IsConst() {
		return cond.val == 1
	}
	if s.pc.has(cond) {
		return true
	}
	ncond := e.ts.Not(cond)
	if s.pc.has(ncond) {
		return false
	}
	if e.replay != nil {
		memo := map[int]uint64{}
		return e.ts.Eval(cond, e.replay.Model, memo) == 1
	}
	e.stats.Branches++
	var ft, ff Result = Unknown, Unknown
	var mt, mf Model
	known := false
	if s.model != nil {
		memo := map[int]uint64{}
		if e.ts.Eval(cond, s.model, memo) == 1 {
			ft, mt = Sat, s.model
			ff, mf = e.feasibleM(s, ncond)
		} else {
			ff, mf = Sat, s.model
			ft, mt = e.feasibleM(s, cond)
		}
		known = true
	}
	if !known {
		ft, mt = e.feasibleM(s, cond)
		ff, mf = e.feasibleM(s, ncond)
	}
	switch {
	case ft != Unsat && ff != Unsat:
		panic(needFork{arity: 2, conds: []*Term{cond, ncond}, models: []Model{mt, mf}, kind: "branch"})
	case ft != Unsat:
		if mt != nil {
			s.model = mt
		}
		return true
	case ff != Unsat:
		if mf != nil {
			s.model = mf
		}
		return false
	}
	// both infeasible: path condition itself is unsat (can happen after unknown)
	panic(pathEnd{"infeasible"})
}

func (e *Engine) feasible(s *State, cond *Term) Result {
	r, _ := e.feasibleM(s, cond)
	return r
}

// feasibleM decides satisfiability of pc ∧ cond, returning a model when one was computed.
func (e *Engine) feasibleM(s *State, cond *Term) (Result, Model) {
	if s.model != nil {
		memo := map[int]uint64{}
		if e.ts.Eval(cond, s.model, memo) == 1 {
			return Sat, s.model
		}
	}
	key := [2]int{s.pcID(), cond.id}
	if r, ok := e.feasCache[key]; ok {
		return r, nil
	}
	as := append(s.pc.terms(), cond)
	r, m := e.solver.Check(as, true)
	e.feasCache[key] = r
	return r, m
}

// choose returns a value in [0,n) from the decision list of the current instruction.
func (e *Engine) choose(s *State, n int, kind, info string) int {
	if n <= 1 {
		return 0
	}
	k := s.decPos
	if k < len(s.dec) {
		s.decPos++
		return s.dec[k]
	}
	if e.replay != nil {
		// consume from the recorded trail
		for e.replay.pos < len(e.replay.Trail) {
			tr := e.replay.Trail[e.replay.pos]
			e.replay.pos++
			if tr.Kind == kind {
				c := tr.Choice
				if c >= n {
					c = n - 1
				}
				s.dec = append(s.dec, c)
				s.decPos++
				return c
			}
		}
		s.dec = append(s.dec, 0)
		s.decPos++
		return 0
	}
	panic(needFork{arity: n, kind: kind, info: info})
}

func (e *Engine) markIncomplete(why string) {
	for _, x := range e.incomplete {
		if x == why {
			return
		}
	}
	if len(e.incomplete) < 50 {
		e.incomplete = append(e.incomplete, why)
	}
}

// violations ------------------------------------------------------------------------

func (e *Engine) report(s *State, kind, label, site, msg string, extraCond *Term, blocked []string) {
	sig := e.harness + ":" + kind + ":" + label
	if kind == "crash" {
		sig = e.harness + ":crash:" + site
	}
	if v, ok := e.violations[sig]; ok {
		v.Count++
		return
	}
	// obtain a model of the path condition (and the failing condition)
	as := s.pc.terms()
	if extraCond != nil {
		as = append(as, extraCond)
	}
	var m Model
	if e.replay != nil {
		m = e.replay.Model
	} else {
		r, mm := e.solver.Check(as, true)
		if r == Unsat {
			return // infeasible path (reached through an 'unknown' feasibility answer)
		}
		if r == Unknown {
			e.markIncomplete("undecided model query for violation " + sig)
			return
		}
		m = mm
	}
	if blocked == nil {
		blocked = s.blocked
	}
	v := &Violation{Sig: sig, Kind: kind, Label: label, Site: site, Msg: msg, Model: m, Count: 1, Blocked: blocked}
	for _, n := range e.nondetOrder {
		v.Nondet = append(v.Nondet, NondetRec{Name: n, Width: e.nondetVars[n], Value: m[n]})
	}
	for _, t := range s.trailList() {
		v.Trail = append(v.Trail, TrailRec{Kind: t.kind, Choice: t.choice, Arity: t.arity, Info: t.info})
	}
	v.Events = s.eventList()
	e.violations[sig] = v
	e.violOrder = append(e.violOrder, sig)
	if e.trace {
		fmt.Fprintf(os.Stderr, "VIOLATION %s at %s: %s\n", sig, site, msg)
	}
}

func (e *Engine) sortedReach() []string {
	var ks []string
	for k := range e.reach {
		ks = append(ks, k)
	}
	sort.Strings(ks)
	return ks
}

func typeString(t types.Type) string {
	return types.TypeString(t, nil)
}

func shortFn(name string) string {
	name = strings.ReplaceAll(name, "github.com/avos-io/goat", "goat")
	return name
}
