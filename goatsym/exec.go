package main

import (
	"fmt"
	"go/token"
	"go/types"
	"unicode/utf8"

	"golang.org/x/tools/go/ssa"
)

func (e *Engine) operand(fr *Frame, v ssa.Value) Value {
	switch x := v.(type) {
	case *ssa.Const:
		return e.constVal(x)
	case *ssa.Global:
		return Ptr{obj: e.globalID(x)}
	case *ssa.Function:
		return &FuncV{fn: x}
	case *ssa.Builtin:
		return &FuncV{builtin: x}
	}
	ix, ok := fr.fi.idx[v]
	if !ok {
		panic(engineErr(fmt.Sprintf("operand %s (%T) not numbered in %s", v.Name(), v, fr.fi.name)))
	}
	return fr.regs[ix]
}

func (e *Engine) setReg(fr *Frame, v ssa.Value, val Value) {
	fr.regs[fr.fi.idx[v]] = val
}

func (e *Engine) gopanic(msg string) { panic(goPanic{msg}) }

// checkIndex verifies 0 <= idx < n (idx is a 64-bit term, signedness per Go type).
func (e *Engine) checkIndex(s *State, idx *Term, n int, signed bool) {
	idx = e.toW(idx, 64, signed)
	var inRange *Term
	inRange = e.ts.Cmp(OpUlt, idx, e.ts.Const(64, uint64(n)))
	if !e.decide(s, inRange) {
		e.gopanic(fmt.Sprintf("runtime error: index out of range [%s] with length %d", idx, n))
	}
}

func (e *Engine) toW(t *Term, w int, signed bool) *Term {
	if t.w == w {
		return t
	}
	if t.w > w {
		return e.ts.Extract(w-1, 0, t)
	}
	if signed {
		return e.ts.SExt(w, t)
	}
	return e.ts.ZExt(w, t)
}

// concreteInt requires the term to be constant (lengths, capacities...).
func (e *Engine) concreteInt(t Value, what string) int {
	x := t.(*Term)
	if !x.IsConst() {
		unsup("symbolic %s", what)
	}
	return int(x.SVal())
}

func (e *Engine) binop(s *State, op token.Token, t types.Type, xv, yv Value, yt types.Type) Value {
	ts := e.ts
	switch op {
	case token.EQL:
		return e.equal(xv, yv)
	case token.NEQ:
		return ts.Not(e.equal(xv, yv))
	}
	switch x := xv.(type) {
	case *Term:
		y := yv.(*Term)
		if x.w == 0 {
			switch op {
			case token.AND:
				return ts.And(x, y)
			case token.OR:
				return ts.Or(x, y)
			case token.XOR:
				return ts.Not(ts.Eq(x, y))
			case token.AND_NOT:
				return ts.And(x, ts.Not(y))
			}
			unsup("bool binop %s", op)
		}
		_, signed, _ := intWidth(t)
		switch op {
		case token.ADD:
			return ts.BV(OpAdd, x, y)
		case token.SUB:
			return ts.BV(OpSub, x, y)
		case token.MUL:
			return ts.BV(OpMul, x, y)
		case token.QUO, token.REM:
			if e.decide(s, ts.Eq(y, ts.Const(y.w, 0))) {
				e.gopanic("runtime error: integer divide by zero")
			}
			if signed {
				if op == token.QUO {
					return ts.BV(OpSDiv, x, y)
				}
				return ts.BV(OpSRem, x, y)
			}
			if op == token.QUO {
				return ts.BV(OpUDiv, x, y)
			}
			return ts.BV(OpURem, x, y)
		case token.AND:
			return ts.BV(OpBAnd, x, y)
		case token.OR:
			return ts.BV(OpBOr, x, y)
		case token.XOR:
			return ts.BV(OpBXor, x, y)
		case token.AND_NOT:
			return ts.BV(OpBAnd, x, ts.BNot(y))
		case token.SHL, token.SHR:
			_, ysigned, _ := intWidth(yt)
			if ysigned {
				if e.decide(s, ts.Cmp(OpSlt, y, ts.Const(y.w, 0))) {
					e.gopanic("runtime error: negative shift amount")
				}
			}
			// bring y to x's width, saturating
			var yy *Term
			big := ts.False
			if y.w > x.w {
				big = ts.Not(ts.Cmp(OpUlt, y, ts.Const(y.w, uint64(x.w))))
				yy = ts.Extract(x.w-1, 0, y)
			} else {
				yy = ts.ZExt(x.w, y)
			}
			var r *Term
			switch {
			case op == token.SHL:
				r = ts.BV(OpShl, x, yy)
				if !big.IsFalse() {
					r = ts.Ite(big, ts.Const(x.w, 0), r)
				}
			case signed:
				r = ts.BV(OpAShr, x, yy)
				if !big.IsFalse() {
					r = ts.Ite(big, ts.BV(OpAShr, x, ts.Const(x.w, uint64(x.w-1))), r)
				}
			default:
				r = ts.BV(OpLShr, x, yy)
				if !big.IsFalse() {
					r = ts.Ite(big, ts.Const(x.w, 0), r)
				}
			}
			return r
		case token.LSS:
			if signed {
				return ts.Cmp(OpSlt, x, y)
			}
			return ts.Cmp(OpUlt, x, y)
		case token.LEQ:
			if signed {
				return ts.Cmp(OpSle, x, y)
			}
			return ts.Cmp(OpUle, x, y)
		case token.GTR:
			if signed {
				return ts.Cmp(OpSlt, y, x)
			}
			return ts.Cmp(OpUlt, y, x)
		case token.GEQ:
			if signed {
				return ts.Cmp(OpSle, y, x)
			}
			return ts.Cmp(OpUle, y, x)
		}
	case float64:
		y := yv.(float64)
		switch op {
		case token.ADD:
			return x + y
		case token.SUB:
			return x - y
		case token.MUL:
			return x * y
		case token.QUO:
			return x / y
		case token.LSS:
			return ts.Bool(x < y)
		case token.LEQ:
			return ts.Bool(x <= y)
		case token.GTR:
			return ts.Bool(x > y)
		case token.GEQ:
			return ts.Bool(x >= y)
		}
	case string, *SymStr:
		switch op {
		case token.ADD:
			if xs, ok := xv.(string); ok {
				if ys, ok := yv.(string); ok {
					return xs + ys
				}
			}
			b := append(append([]*Term(nil), e.strBytes(xv)...), e.strBytes(yv)...)
			return mkStr(b)
		case token.LSS, token.LEQ, token.GTR, token.GEQ:
			xs, ok1 := xv.(string)
			ys, ok2 := yv.(string)
			if ok1 && ok2 {
				switch op {
				case token.LSS:
					return ts.Bool(xs < ys)
				case token.LEQ:
					return ts.Bool(xs <= ys)
				case token.GTR:
					return ts.Bool(xs > ys)
				default:
					return ts.Bool(xs >= ys)
				}
			}
			return e.strLess(xv, yv, op)
		}
	}
	unsup("binop %s on %T", op, xv)
	return nil
}

func (e *Engine) strLess(xv, yv Value, op token.Token) *Term {
	ts := e.ts
	xb, yb := e.strBytes(xv), e.strBytes(yv)
	// lexicographic less-than
	var lt func(i int) *Term
	lt = func(i int) *Term {
		if i >= len(xb) {
			return ts.Bool(i < len(yb))
		}
		if i >= len(yb) {
			return ts.False
		}
		return ts.Or(ts.Cmp(OpUlt, xb[i], yb[i]), ts.And(ts.Eq(xb[i], yb[i]), lt(i+1)))
	}
	eq := e.equal(xv, yv)
	l := lt(0)
	switch op {
	case token.LSS:
		return l
	case token.LEQ:
		return ts.Or(l, eq)
	case token.GTR:
		return ts.And(ts.Not(l), ts.Not(eq))
	default:
		return ts.Not(l)
	}
}

func (e *Engine) convert(s *State, v Value, from, to types.Type) Value {
	ts := e.ts
	fu, tu := from.Underlying(), to.Underlying()
	// integer <-> integer
	if fw, fsigned, ok := intWidth(from); ok {
		if tw, _, ok2 := intWidth(to); ok2 {
			return e.toW(v.(*Term), tw, fsigned)
		}
		if isFloatT(to) {
			x := v.(*Term)
			if !x.IsConst() {
				unsup("symbolic int to float conversion")
			}
			if fsigned {
				return float64(x.SVal())
			}
			return float64(x.val)
		}
		if isStringT(to) {
			x := v.(*Term)
			if !x.IsConst() {
				unsup("symbolic int to string conversion")
			}
			_ = fw
			return string(rune(x.SVal()))
		}
	}
	if isFloatT(from) {
		f := v.(float64)
		if isFloatT(to) {
			if tu.(*types.Basic).Kind() == types.Float32 {
				return float64(float32(f))
			}
			return f
		}
		if tw, tsigned, ok := intWidth(to); ok {
			if tsigned {
				return ts.Const(tw, uint64(int64(f)))
			}
			return ts.Const(tw, uint64(f))
		}
	}
	if isStringT(from) {
		if sl, ok := tu.(*types.Slice); ok {
			if b, ok := sl.Elem().Underlying().(*types.Basic); ok && b.Kind() == types.Uint8 {
				bs := e.strBytes(v)
				el := make([]Value, len(bs))
				for i, t := range bs {
					el[i] = t
				}
				id := s.alloc(&Object{v: &ArrayV{el}, label: "[]byte(string)"})
				return Slice{obj: id, ln: len(el), cap: len(el)}
			}
			if b, ok := sl.Elem().Underlying().(*types.Basic); ok && b.Kind() == types.Int32 {
				str, ok := v.(string)
				if !ok {
					unsup("[]rune of symbolic string")
				}
				rs := []rune(str)
				el := make([]Value, len(rs))
				for i, r := range rs {
					el[i] = ts.Const(32, uint64(r))
				}
				id := s.alloc(&Object{v: &ArrayV{el}, label: "[]rune(string)"})
				return Slice{obj: id, ln: len(el), cap: len(el)}
			}
		}
		if isStringT(to) {
			return v
		}
	}
	if sl, ok := fu.(*types.Slice); ok && isStringT(to) {
		x := v.(Slice)
		if b, ok := sl.Elem().Underlying().(*types.Basic); ok && b.Kind() == types.Uint8 {
			if x.obj == 0 {
				return ""
			}
			arr := nav(e.obj(s, x.obj).v, x.path).(*ArrayV)
			bs := make([]*Term, x.ln)
			for i := 0; i < x.ln; i++ {
				bs[i] = arr.e[x.off+i].(*Term)
			}
			return mkStr(bs)
		}
		if b, ok := sl.Elem().Underlying().(*types.Basic); ok && b.Kind() == types.Int32 {
			if x.obj == 0 {
				return ""
			}
			arr := nav(e.obj(s, x.obj).v, x.path).(*ArrayV)
			rs := make([]rune, x.ln)
			for i := 0; i < x.ln; i++ {
				t := arr.e[x.off+i].(*Term)
				if !t.IsConst() {
					unsup("string of symbolic runes")
				}
				rs[i] = rune(t.SVal())
			}
			return string(rs)
		}
	}
	// pointer <-> unsafe.Pointer etc.
	if _, ok := fu.(*types.Pointer); ok {
		return v
	}
	if b, ok := fu.(*types.Basic); ok && b.Kind() == types.UnsafePointer {
		return v
	}
	unsup("convert %s -> %s", from, to)
	return nil
}

func (e *Engine) sliceArr(s *State, x Slice) *ArrayV {
	return nav(e.obj(s, x.obj).v, x.path).(*ArrayV)
}

// execInstr executes one non-visible, non-call instruction; returns false if the
// instruction is handled elsewhere.
func (e *Engine) execInstr(s *State, gi int, g *G, fr *Frame, instr ssa.Instruction) {
	ts := e.ts
	switch in := instr.(type) {
	case *ssa.Alloc:
		elem := in.Type().Underlying().(*types.Pointer).Elem()
		id := s.alloc(&Object{v: e.zero(elem), label: in.Comment, typ: elem})
		e.setReg(fr, in, Ptr{obj: id})
	case *ssa.BinOp:
		x, y := e.operand(fr, in.X), e.operand(fr, in.Y)
		e.setReg(fr, in, e.binop(s, in.Op, in.X.Type(), x, y, in.Y.Type()))
	case *ssa.UnOp:
		x := e.operand(fr, in.X)
		switch in.Op {
		case token.NOT:
			e.setReg(fr, in, ts.Not(x.(*Term)))
		case token.SUB:
			if f, ok := x.(float64); ok {
				e.setReg(fr, in, -f)
			} else {
				e.setReg(fr, in, ts.Neg(x.(*Term)))
			}
		case token.XOR:
			e.setReg(fr, in, ts.BNot(x.(*Term)))
		case token.MUL:
			p := x.(Ptr)
			if e.raceMode {
				e.raceAccess(s, gi, p, false, in)
			}
			e.setReg(fr, in, e.load(s, p))
		default:
			unsup("unop %s", in.Op)
		}
	case *ssa.ChangeInterface:
		e.setReg(fr, in, e.operand(fr, in.X))
	case *ssa.ChangeType:
		e.setReg(fr, in, e.operand(fr, in.X))
	case *ssa.Convert:
		e.setReg(fr, in, e.convert(s, e.operand(fr, in.X), in.X.Type(), in.Type()))
	case *ssa.MakeInterface:
		e.setReg(fr, in, Iface{t: in.X.Type(), v: e.operand(fr, in.X)})
	case *ssa.MakeClosure:
		env := make([]Value, len(in.Bindings))
		for i, b := range in.Bindings {
			env[i] = e.operand(fr, b)
		}
		e.setReg(fr, in, &FuncV{fn: in.Fn.(*ssa.Function), env: env})
	case *ssa.MakeMap:
		id := s.alloc(&Object{m: &MapData{}, label: "map"})
		e.setReg(fr, in, MapV{obj: id})
	case *ssa.MakeChan:
		n := e.concreteInt(e.operand(fr, in.Size), "channel capacity")
		id := s.alloc(&Object{ch: &ChanData{cap: n}, label: "chan@" + e.posOf(in)})
		e.setReg(fr, in, ChanV{obj: id})
	case *ssa.MakeSlice:
		ln := e.concreteInt(e.operand(fr, in.Len), "slice length")
		cp := e.concreteInt(e.operand(fr, in.Cap), "slice capacity")
		if ln < 0 || cp < ln {
			e.gopanic("runtime error: makeslice: len out of range")
		}
		el := make([]Value, cp)
		z := e.zero(in.Type().Underlying().(*types.Slice).Elem())
		for i := range el {
			el[i] = z
		}
		id := s.alloc(&Object{v: &ArrayV{el}, label: "makeslice"})
		e.setReg(fr, in, Slice{obj: id, ln: ln, cap: cp})
	case *ssa.Slice:
		e.setReg(fr, in, e.sliceOp(s, fr, in))
	case *ssa.FieldAddr:
		p := e.operand(fr, in.X).(Ptr)
		if p.obj == 0 {
			e.gopanic("runtime error: invalid memory address or nil pointer dereference")
		}
		np := Ptr{obj: p.obj, path: appendPath(p.path, in.Field)}
		e.setReg(fr, in, np)
	case *ssa.Field:
		x := e.operand(fr, in.X).(*StructV)
		e.setReg(fr, in, x.f[in.Field])
	case *ssa.IndexAddr:
		xv := e.operand(fr, in.X)
		idx := e.operand(fr, in.Index).(*Term)
		_, isigned, _ := intWidth(in.Index.Type())
		switch x := xv.(type) {
		case Slice:
			e.checkIndex(s, idx, x.ln, isigned)
			if idx.IsConst() {
				e.setReg(fr, in, Ptr{obj: x.obj, path: appendPath(x.path, x.off+int(idx.val))})
			} else {
				i64 := e.toW(idx, 64, isigned)
				if x.off != 0 {
					i64 = ts.BV(OpAdd, i64, ts.Const(64, uint64(x.off)))
				}
				e.setReg(fr, in, Ptr{obj: x.obj, path: x.path, sym: i64})
			}
		case Ptr:
			if x.obj == 0 {
				e.gopanic("runtime error: invalid memory address or nil pointer dereference")
			}
			n := int(in.X.Type().Underlying().(*types.Pointer).Elem().Underlying().(*types.Array).Len())
			e.checkIndex(s, idx, n, isigned)
			if idx.IsConst() {
				e.setReg(fr, in, Ptr{obj: x.obj, path: appendPath(x.path, int(idx.val))})
			} else {
				e.setReg(fr, in, Ptr{obj: x.obj, path: x.path, sym: e.toW(idx, 64, isigned)})
			}
		default:
			unsup("IndexAddr on %T", xv)
		}
	case *ssa.Index:
		xv := e.operand(fr, in.X)
		idx := e.operand(fr, in.Index).(*Term)
		_, isigned, _ := intWidth(in.Index.Type())
		switch x := xv.(type) {
		case *ArrayV:
			e.checkIndex(s, idx, len(x.e), isigned)
			if idx.IsConst() {
				e.setReg(fr, in, x.e[idx.val])
			} else {
				e.setReg(fr, in, e.selectElem(x.e, e.toW(idx, 64, isigned)))
			}
		case string, *SymStr:
			bs := e.strBytes(xv)
			e.checkIndex(s, idx, len(bs), isigned)
			if idx.IsConst() {
				e.setReg(fr, in, bs[idx.val])
			} else {
				el := make([]Value, len(bs))
				for i, b := range bs {
					el[i] = b
				}
				e.setReg(fr, in, e.selectElem(el, e.toW(idx, 64, isigned)))
			}
		default:
			unsup("Index on %T", xv)
		}
	case *ssa.Lookup:
		xv := e.operand(fr, in.X)
		switch x := xv.(type) {
		case MapV:
			k := e.operand(fr, in.Index)
			e.raceMap(s, gi, x.obj, false, in)
			var v Value
			found := false
			if x.obj != 0 {
				md := e.obj(s, x.obj).m
				if i := e.mapFind(s, md, k); i >= 0 {
					v, found = md.vals[i], true
				}
			}
			if !found {
				v = e.zero(in.X.Type().Underlying().(*types.Map).Elem())
			}
			if in.CommaOk {
				e.setReg(fr, in, Tuple{v, ts.Bool(found)})
			} else {
				e.setReg(fr, in, v)
			}
		case string, *SymStr:
			idx := e.operand(fr, in.Index).(*Term)
			_, isigned, _ := intWidth(in.Index.Type())
			bs := e.strBytes(xv)
			e.checkIndex(s, idx, len(bs), isigned)
			if idx.IsConst() {
				e.setReg(fr, in, bs[idx.val])
			} else {
				el := make([]Value, len(bs))
				for i, b := range bs {
					el[i] = b
				}
				e.setReg(fr, in, e.selectElem(el, e.toW(idx, 64, isigned)))
			}
		default:
			unsup("Lookup on %T", xv)
		}
	case *ssa.MapUpdate:
		m := e.operand(fr, in.Map).(MapV)
		if m.obj == 0 {
			e.gopanic("assignment to entry in nil map")
		}
		k := e.operand(fr, in.Key)
		v := e.operand(fr, in.Value)
		e.raceMap(s, gi, m.obj, true, in)
		i := e.mapFind(s, e.obj(s, m.obj).m, k)
		o := e.wobj(s, m.obj)
		if i >= 0 {
			o.m.vals[i] = v
		} else {
			o.m.keys = append(o.m.keys, k)
			o.m.vals = append(o.m.vals, v)
		}
	case *ssa.Range:
		xv := e.operand(fr, in.X)
		var it *IterV
		switch x := xv.(type) {
		case MapV:
			e.raceMap(s, gi, x.obj, false, in)
			it = &IterV{m: x.obj}
			if x.obj != 0 {
				it.keys = append([]Value(nil), e.obj(s, x.obj).m.keys...)
			}
		case string, *SymStr:
			it = &IterV{str: xv}
		default:
			unsup("range over %T", xv)
		}
		id := s.alloc(&Object{v: it, label: "iter"})
		e.setReg(fr, in, Ptr{obj: id})
	case *ssa.Next:
		e.execNext(s, fr, in)
	case *ssa.Extract:
		t := e.operand(fr, in.Tuple).(Tuple)
		e.setReg(fr, in, t[in.Index])
	case *ssa.TypeAssert:
		e.execTypeAssert(s, fr, in)
	case *ssa.Store:
		p := e.operand(fr, in.Addr).(Ptr)
		if e.raceMode {
			e.raceAccess(s, gi, p, true, in)
		}
		e.store(s, p, e.operand(fr, in.Val))
	case *ssa.SliceToArrayPointer:
		x := e.operand(fr, in.X).(Slice)
		n := int(in.Type().Underlying().(*types.Pointer).Elem().Underlying().(*types.Array).Len())
		if x.ln < n {
			e.gopanic("runtime error: cannot convert slice to array pointer")
		}
		if x.obj == 0 {
			e.setReg(fr, in, Ptr{})
		} else if x.off == 0 && len(e.sliceArr(s, x).e) == n {
			e.setReg(fr, in, Ptr{obj: x.obj, path: x.path})
		} else {
			unsup("slice to array pointer with offset")
		}
	case *ssa.DebugRef:
	default:
		unsup("instruction %T", instr)
	}
}

func appendPath(p []int, i int) []int {
	np := make([]int, len(p)+1)
	copy(np, p)
	np[len(p)] = i
	return np
}

// mapFind returns the index of key k in md, forking on symbolic key equality.
func (e *Engine) mapFind(s *State, md *MapData, k Value) int {
	for i, mk := range md.keys {
		eq := e.equal(mk, k)
		if e.decide(s, eq) {
			return i
		}
	}
	return -1
}

func (e *Engine) sliceOp(s *State, fr *Frame, in *ssa.Slice) Value {
	xv := e.operand(fr, in.X)
	lo, hi, max := -1, -1, -1
	if in.Low != nil {
		lo = e.concreteInt(e.operand(fr, in.Low), "slice bound")
	}
	if in.High != nil {
		hi = e.concreteInt(e.operand(fr, in.High), "slice bound")
	}
	if in.Max != nil {
		max = e.concreteInt(e.operand(fr, in.Max), "slice bound")
	}
	switch x := xv.(type) {
	case string, *SymStr:
		n := strLen(xv)
		if lo < 0 {
			lo = 0
		}
		if hi < 0 {
			hi = n
		}
		if lo > hi || hi > n {
			e.gopanic(fmt.Sprintf("runtime error: slice bounds out of range [%d:%d] with length %d", lo, hi, n))
		}
		if str, ok := xv.(string); ok {
			return str[lo:hi]
		}
		return mkStr(x.(*SymStr).b[lo:hi])
	case Slice:
		if lo < 0 {
			lo = 0
		}
		if hi < 0 {
			hi = x.ln
		}
		if max < 0 {
			max = x.cap
		}
		if lo > hi || hi > max || max > x.cap {
			e.gopanic(fmt.Sprintf("runtime error: slice bounds out of range [%d:%d:%d] with capacity %d", lo, hi, max, x.cap))
		}
		if x.obj == 0 {
			return Slice{}
		}
		return Slice{obj: x.obj, path: x.path, off: x.off + lo, ln: hi - lo, cap: max - lo}
	case Ptr:
		if x.obj == 0 {
			e.gopanic("runtime error: invalid memory address or nil pointer dereference")
		}
		n := int(in.X.Type().Underlying().(*types.Pointer).Elem().Underlying().(*types.Array).Len())
		if lo < 0 {
			lo = 0
		}
		if hi < 0 {
			hi = n
		}
		if max < 0 {
			max = n
		}
		if lo > hi || hi > max || max > n {
			e.gopanic("runtime error: slice bounds out of range")
		}
		return Slice{obj: x.obj, path: x.path, off: lo, ln: hi - lo, cap: max - lo}
	}
	unsup("slice of %T", xv)
	return nil
}

func (e *Engine) execNext(s *State, fr *Frame, in *ssa.Next) {
	ts := e.ts
	p := e.operand(fr, in.Iter).(Ptr)
	it := e.obj(s, p.obj).v.(*IterV)
	if in.IsString {
		bs := e.strBytes(it.str)
		if it.pos >= len(bs) {
			e.setReg(fr, in, Tuple{ts.False, ts.Const(64, 0), ts.Const(32, 0)})
			return
		}
		b := bs[it.pos]
		if b.IsConst() {
			str := it.str.(string)
			_ = str
		}
		if str, ok := it.str.(string); ok {
			r, sz := utf8.DecodeRuneInString(str[it.pos:])
			e.wobj(s, p.obj).v = &IterV{str: it.str, pos: it.pos + sz}
			e.setReg(fr, in, Tuple{ts.True, ts.Const(64, uint64(it.pos)), ts.Const(32, uint64(r))})
			return
		}
		// symbolic bytes: UTF-8 decoding by case split (all decisions before any mutation)
		r, sz := e.decodeRuneSym(s, bs[it.pos:])
		e.wobj(s, p.obj).v = &IterV{str: it.str, pos: it.pos + sz}
		e.setReg(fr, in, Tuple{ts.True, ts.Const(64, uint64(it.pos)), r})
		return
	}
	// map: pick an arbitrary remaining key that is still present
	var md *MapData
	if it.m != 0 {
		md = e.obj(s, it.m).m
	}
	var cand []int
	for i, k := range it.keys {
		// present? (keys are compared by identity of stored key values: entries are appended, deletes remove)
		if md != nil && e.mapHasExact(md, k) {
			cand = append(cand, i)
		}
	}
	mt := in.Iter.(*ssa.Range).X.Type().Underlying().(*types.Map)
	if len(cand) == 0 {
		e.wobj(s, p.obj).v = &IterV{m: it.m}
		e.setReg(fr, in, Tuple{ts.False, e.zero(mt.Key()), e.zero(mt.Elem())})
		return
	}
	c := 0
	if len(cand) > 1 && !e.orderedMaps {
		c = e.choose(s, len(cand), "maporder", "")
		s.addTrail("maporder", c, len(cand), "")
	}
	ki := cand[c]
	k := it.keys[ki]
	rest := make([]Value, 0, len(cand)-1)
	for _, i := range cand {
		if i != ki {
			rest = append(rest, it.keys[i])
		}
	}
	var v Value
	for i, mk := range md.keys {
		if sameKey(mk, k) {
			v = md.vals[i]
		}
	}
	e.wobj(s, p.obj).v = &IterV{m: it.m, keys: rest}
	e.setReg(fr, in, Tuple{ts.True, k, v})
}

// sameKey: identity of stored key values (no symbolic reasoning: used for iteration bookkeeping)
func sameKey(a, b Value) bool {
	switch x := a.(type) {
	case *Term:
		y, ok := b.(*Term)
		return ok && x == y
	case string:
		y, ok := b.(string)
		return ok && x == y
	case *SymStr:
		y, ok := b.(*SymStr)
		if !ok || len(x.b) != len(y.b) {
			return false
		}
		for i := range x.b {
			if x.b[i] != y.b[i] {
				return false
			}
		}
		return true
	case Iface:
		y, ok := b.(Iface)
		if !ok {
			return false
		}
		if x.t == nil || y.t == nil {
			return x.t == nil && y.t == nil
		}
		return types.Identical(x.t, y.t) && sameKey(x.v, y.v)
	case Ptr:
		y, ok := b.(Ptr)
		return ok && x.obj == y.obj && eqPath(x.path, y.path)
	case *StructV:
		y, ok := b.(*StructV)
		if !ok || len(x.f) != len(y.f) {
			return false
		}
		for i := range x.f {
			if !sameKey(x.f[i], y.f[i]) {
				return false
			}
		}
		return true
	case ChanV:
		y, ok := b.(ChanV)
		return ok && x == y
	}
	return false
}

func (e *Engine) mapHasExact(md *MapData, k Value) bool {
	for _, mk := range md.keys {
		if sameKey(mk, k) {
			return true
		}
	}
	return false
}

func (e *Engine) execTypeAssert(s *State, fr *Frame, in *ssa.TypeAssert) {
	x := e.operand(fr, in.X).(Iface)
	ok := false
	var res Value
	if x.t != nil {
		if it, isI := in.AssertedType.Underlying().(*types.Interface); isI {
			ok = e.implements(x.t, it)
			res = x
		} else {
			ok = types.Identical(x.t, in.AssertedType)
			res = x.v
		}
	}
	if in.CommaOk {
		if !ok {
			res = e.zero(in.AssertedType)
		}
		e.setReg(fr, in, Tuple{res, e.ts.Bool(ok)})
		return
	}
	if !ok {
		if x.t == nil {
			e.gopanic(fmt.Sprintf("interface conversion: interface is nil, not %s", in.AssertedType))
		}
		e.gopanic(fmt.Sprintf("interface conversion: interface is %s, not %s", x.t, in.AssertedType))
	}
	e.setReg(fr, in, res)
}

func (e *Engine) implements(t types.Type, it *types.Interface) bool {
	if it.NumMethods() == 0 {
		return true
	}
	return types.Implements(t, it)
}

// decodeRuneSym decodes the first UTF-8 sequence of symbolic bytes bs (len >= 1) exactly as
// utf8.DecodeRune does: the rune (32-bit term) and its width; invalid or truncated sequences give
// (RuneError, 1). Only decide() is used, so the caller may mutate state afterwards.
func (e *Engine) decodeRuneSym(s *State, bs []*Term) (*Term, int) {
	ts := e.ts
	in := func(b *Term, lo, hi uint64) bool {
		return e.decide(s, ts.And(ts.Cmp(OpUle, ts.Const(8, lo), b), ts.Cmp(OpUle, b, ts.Const(8, hi))))
	}
	bad := func() (*Term, int) { return ts.Const(32, 0xFFFD), 1 }
	b0 := bs[0]
	if e.decide(s, ts.Cmp(OpUlt, b0, ts.Const(8, 0x80))) {
		return ts.ZExt(32, b0), 1
	}
	low6 := func(b *Term) *Term { return ts.ZExt(32, ts.BV(OpBAnd, b, ts.Const(8, 0x3F))) }
	shl := func(t *Term, n uint64) *Term { return ts.BV(OpShl, t, ts.Const(32, n)) }
	or := func(a, b *Term) *Term { return ts.BV(OpBOr, a, b) }
	if in(b0, 0xC2, 0xDF) {
		if len(bs) < 2 || !in(bs[1], 0x80, 0xBF) {
			return bad()
		}
		hi := ts.ZExt(32, ts.BV(OpBAnd, b0, ts.Const(8, 0x1F)))
		return or(shl(hi, 6), low6(bs[1])), 2
	}
	if in(b0, 0xE0, 0xEF) {
		if len(bs) < 3 {
			return bad()
		}
		lo1, hi1 := uint64(0x80), uint64(0xBF)
		if e.decide(s, ts.Eq(b0, ts.Const(8, 0xE0))) {
			lo1 = 0xA0
		} else if e.decide(s, ts.Eq(b0, ts.Const(8, 0xED))) {
			hi1 = 0x9F
		}
		if !in(bs[1], lo1, hi1) || !in(bs[2], 0x80, 0xBF) {
			return bad()
		}
		hi := ts.ZExt(32, ts.BV(OpBAnd, b0, ts.Const(8, 0x0F)))
		return or(or(shl(hi, 12), shl(low6(bs[1]), 6)), low6(bs[2])), 3
	}
	if in(b0, 0xF0, 0xF4) {
		if len(bs) < 4 {
			return bad()
		}
		lo1, hi1 := uint64(0x80), uint64(0xBF)
		if e.decide(s, ts.Eq(b0, ts.Const(8, 0xF0))) {
			lo1 = 0x90
		} else if e.decide(s, ts.Eq(b0, ts.Const(8, 0xF4))) {
			hi1 = 0x8F
		}
		if !in(bs[1], lo1, hi1) || !in(bs[2], 0x80, 0xBF) || !in(bs[3], 0x80, 0xBF) {
			return bad()
		}
		hi := ts.ZExt(32, ts.BV(OpBAnd, b0, ts.Const(8, 0x07)))
		return or(or(or(shl(hi, 18), shl(low6(bs[1]), 12)), shl(low6(bs[2]), 6)), low6(bs[3])), 4
	}
	return bad()
}
