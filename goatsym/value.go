package main

import (
	"fmt"
	"go/constant"
	"go/token"
	"go/types"
	"math"
	"strings"

	"golang.org/x/tools/go/ssa"
)

// Value is one of:
//
//	*Term      bool and integer scalars (incl. uintptr)
//	float64    floats (concrete only)
//	string     fully concrete string
//	*SymStr    string with at least one symbolic byte (concrete length)
//	Ptr        pointer (obj==0: nil)
//	Slice      slice (obj==0: nil slice)
//	MapV       map (obj==0: nil map)
//	ChanV      channel (obj==0: nil chan)
//	*FuncV     function / closure / builtin (nil pointer: nil func)
//	Iface      interface value (t==nil: nil interface)
//	*StructV   struct
//	*ArrayV    array
//	Tuple      multiple results
type Value interface{}

type SymStr struct{ b []*Term }

type Ptr struct {
	obj  int
	path []int // immutable
	sym  *Term // optional trailing symbolic index (64-bit unsigned)
}

type Slice struct {
	obj          int
	path         []int
	off, ln, cap int
}

type MapV struct{ obj int }
type ChanV struct{ obj int }

type FuncV struct {
	fn      *ssa.Function
	env     []Value
	builtin *ssa.Builtin
	native  string // engine-internal function (e.g. context cancel func)
	data    Value  // payload of native closures
}

type Iface struct {
	t types.Type
	v Value
}

type StructV struct{ f []Value }
type ArrayV struct{ e []Value }
type Tuple []Value

// type helpers

func intWidth(t types.Type) (w int, signed bool, ok bool) {
	b, isB := t.Underlying().(*types.Basic)
	if !isB {
		return 0, false, false
	}
	switch b.Kind() {
	case types.Int8:
		return 8, true, true
	case types.Int16:
		return 16, true, true
	case types.Int32:
		return 32, true, true
	case types.Int64, types.Int, types.UntypedInt, types.UntypedRune:
		return 64, true, true
	case types.Uint8:
		return 8, false, true
	case types.Uint16:
		return 16, false, true
	case types.Uint32:
		return 32, false, true
	case types.Uint64, types.Uint, types.Uintptr:
		return 64, false, true
	}
	if b.Kind() == types.UntypedRune {
		return 32, true, true
	}
	return 0, false, false
}

func isBoolT(t types.Type) bool {
	b, ok := t.Underlying().(*types.Basic)
	return ok && b.Info()&types.IsBoolean != 0
}
func isStringT(t types.Type) bool {
	b, ok := t.Underlying().(*types.Basic)
	return ok && b.Info()&types.IsString != 0
}
func isFloatT(t types.Type) bool {
	b, ok := t.Underlying().(*types.Basic)
	return ok && b.Info()&types.IsFloat != 0
}

func (e *Engine) zero(t types.Type) Value {
	switch u := t.Underlying().(type) {
	case *types.Basic:
		if u.Info()&types.IsBoolean != 0 {
			return e.ts.False
		}
		if u.Info()&types.IsString != 0 {
			return ""
		}
		if u.Info()&types.IsFloat != 0 {
			return float64(0)
		}
		if u.Kind() == types.UnsafePointer {
			return Ptr{}
		}
		if u.Kind() == types.UntypedNil {
			return Iface{}
		}
		if w, _, ok := intWidth(t); ok {
			return e.ts.Const(w, 0)
		}
		panic(engineErr("zero of basic type " + t.String()))
	case *types.Pointer:
		return Ptr{}
	case *types.Slice:
		return Slice{}
	case *types.Map:
		return MapV{}
	case *types.Chan:
		return ChanV{}
	case *types.Signature:
		return (*FuncV)(nil)
	case *types.Interface:
		return Iface{}
	case *types.Struct:
		f := make([]Value, u.NumFields())
		for i := range f {
			f[i] = e.zero(u.Field(i).Type())
		}
		return &StructV{f}
	case *types.Array:
		n := int(u.Len())
		el := make([]Value, n)
		if n > 0 {
			z := e.zero(u.Elem())
			for i := range el {
				el[i] = z // values are immutable, sharing is fine
			}
		}
		return &ArrayV{el}
	case *types.Tuple:
		tt := make(Tuple, u.Len())
		for i := range tt {
			tt[i] = e.zero(u.At(i).Type())
		}
		return tt
	}
	panic(engineErr("zero of type " + t.String()))
}

type engineErr string

func (e engineErr) Error() string { return string(e) }

// unsupported is raised (via panic) for features outside the encoder; the run is INCOMPLETE.
type unsupported struct{ what string }

func unsup(f string, a ...interface{}) { panic(unsupported{fmt.Sprintf(f, a...)}) }

func (e *Engine) constVal(c *ssa.Const) Value {
	if v, ok := e.constCache[c]; ok {
		return v
	}
	v := e.constVal0(c)
	e.constCache[c] = v
	return v
}

func (e *Engine) constVal0(c *ssa.Const) Value {
	t := c.Type()
	if c.Value == nil {
		return e.zero(t)
	}
	switch u := t.Underlying().(type) {
	case *types.Basic:
		switch {
		case u.Info()&types.IsBoolean != 0:
			return e.ts.Bool(constant.BoolVal(c.Value))
		case u.Info()&types.IsString != 0:
			if c.Value.Kind() == constant.String {
				return constant.StringVal(c.Value)
			}
			// int -> string conversion constants
			return string(rune(c.Int64()))
		case u.Info()&types.IsFloat != 0:
			f, _ := constant.Float64Val(constant.ToFloat(c.Value))
			return f
		case u.Info()&types.IsInteger != 0:
			w, signed, _ := intWidth(t)
			if signed {
				return e.ts.Const(w, uint64(c.Int64()))
			}
			return e.ts.Const(w, c.Uint64())
		}
	}
	unsup("constant of type %s", t)
	return nil
}

// string helpers ------------------------------------------------------------

func (e *Engine) strBytes(v Value) []*Term {
	switch s := v.(type) {
	case string:
		out := make([]*Term, len(s))
		for i := 0; i < len(s); i++ {
			out[i] = e.ts.Const(8, uint64(s[i]))
		}
		return out
	case *SymStr:
		return s.b
	}
	panic(engineErr(fmt.Sprintf("not a string: %T", v)))
}

func strLen(v Value) int {
	switch s := v.(type) {
	case string:
		return len(s)
	case *SymStr:
		return len(s.b)
	}
	panic(engineErr(fmt.Sprintf("not a string: %T", v)))
}

func mkStr(b []*Term) Value {
	allc := true
	for _, t := range b {
		if !t.IsConst() {
			allc = false
			break
		}
	}
	if allc {
		bs := make([]byte, len(b))
		for i, t := range b {
			bs[i] = byte(t.val)
		}
		return string(bs)
	}
	return &SymStr{b}
}

// equality ------------------------------------------------------------------

func eqPath(a, b []int) bool {
	if len(a) != len(b) {
		return false
	}
	for i := range a {
		if a[i] != b[i] {
			return false
		}
	}
	return true
}

// equal returns a Bool term for Go's == on two values of the same static type.
func (e *Engine) equal(a, b Value) *Term {
	ts := e.ts
	switch x := a.(type) {
	case *Term:
		y := b.(*Term)
		return ts.Eq(x, y)
	case float64:
		return ts.Bool(x == b.(float64))
	case string, *SymStr:
		if xs, ok := a.(string); ok {
			if ys, ok := b.(string); ok {
				return ts.Bool(xs == ys)
			}
		}
		if strLen(a) != strLen(b) {
			return ts.False
		}
		xb, yb := e.strBytes(a), e.strBytes(b)
		r := ts.True
		for i := range xb {
			r = ts.And(r, ts.Eq(xb[i], yb[i]))
			if r.IsFalse() {
				return r
			}
		}
		return r
	case Ptr:
		y := b.(Ptr)
		if x.sym != nil || y.sym != nil {
			unsup("comparison of symbolic pointers")
		}
		return ts.Bool(x.obj == y.obj && eqPath(x.path, y.path))
	case MapV:
		return ts.Bool(x.obj == b.(MapV).obj)
	case ChanV:
		return ts.Bool(x.obj == b.(ChanV).obj)
	case Slice:
		y := b.(Slice)
		// only comparison with nil is legal
		return ts.Bool(x.obj == 0 && y.obj == 0)
	case *FuncV:
		y := b.(*FuncV)
		return ts.Bool(x == nil && y == nil)
	case Iface:
		y := b.(Iface)
		if x.t == nil || y.t == nil {
			return ts.Bool(x.t == nil && y.t == nil)
		}
		if !types.Identical(x.t, y.t) {
			return ts.False
		}
		return e.equal(x.v, y.v)
	case *StructV:
		y := b.(*StructV)
		r := ts.True
		for i := range x.f {
			r = ts.And(r, e.equal(x.f[i], y.f[i]))
			if r.IsFalse() {
				return r
			}
		}
		return r
	case *ArrayV:
		y := b.(*ArrayV)
		r := ts.True
		for i := range x.e {
			r = ts.And(r, e.equal(x.e[i], y.e[i]))
			if r.IsFalse() {
				return r
			}
		}
		return r
	}
	panic(engineErr(fmt.Sprintf("equal: unsupported %T", a)))
}

// showValue renders a value for traces / counterexamples.
func (e *Engine) showValue(s *State, v Value, depth int) string {
	if depth > 4 {
		return "…"
	}
	switch x := v.(type) {
	case nil:
		return "<nil>"
	case *Term:
		return x.String()
	case float64:
		return fmt.Sprint(x)
	case string:
		return fmt.Sprintf("%q", x)
	case *SymStr:
		parts := make([]string, len(x.b))
		for i, t := range x.b {
			parts[i] = t.String()
		}
		return "str[" + strings.Join(parts, ",") + "]"
	case Ptr:
		if x.obj == 0 {
			return "nil"
		}
		if s != nil && depth < 3 && x.sym == nil {
			if o := s.objOpt(x.obj); o != nil && o.m == nil && o.ch == nil && o.ctx == nil {
				if val, ok := navOpt(o.v, x.path); ok {
					return "&" + e.showValue(s, val, depth+1)
				}
			}
		}
		return fmt.Sprintf("ptr(%d%v)", x.obj, x.path)
	case Slice:
		if x.obj == 0 {
			return "nil"
		}
		return fmt.Sprintf("slice(%d,off=%d,len=%d)", x.obj, x.off, x.ln)
	case MapV:
		return fmt.Sprintf("map(%d)", x.obj)
	case ChanV:
		return fmt.Sprintf("chan(%d)", x.obj)
	case *FuncV:
		if x == nil {
			return "nil"
		}
		if x.fn != nil {
			return "func " + x.fn.String()
		}
		return "func " + x.native
	case Iface:
		if x.t == nil {
			return "nil"
		}
		return fmt.Sprintf("%s(%s)", x.t, e.showValue(s, x.v, depth+1))
	case *StructV:
		parts := make([]string, len(x.f))
		for i, f := range x.f {
			parts[i] = e.showValue(s, f, depth+1)
		}
		return "{" + strings.Join(parts, " ") + "}"
	case *ArrayV:
		if len(x.e) > 16 {
			return fmt.Sprintf("[%d]…", len(x.e))
		}
		parts := make([]string, len(x.e))
		for i, f := range x.e {
			parts[i] = e.showValue(s, f, depth+1)
		}
		return "[" + strings.Join(parts, " ") + "]"
	case Tuple:
		parts := make([]string, len(x))
		for i, f := range x {
			parts[i] = e.showValue(s, f, depth+1)
		}
		return "(" + strings.Join(parts, ", ") + ")"
	}
	return fmt.Sprintf("%T", v)
}

func navOpt(v Value, path []int) (Value, bool) {
	for _, p := range path {
		switch x := v.(type) {
		case *StructV:
			if p >= len(x.f) {
				return nil, false
			}
			v = x.f[p]
		case *ArrayV:
			if p >= len(x.e) {
				return nil, false
			}
			v = x.e[p]
		default:
			return nil, false
		}
	}
	return v, true
}

var _ = token.NoPos
var _ = math.MaxInt64
