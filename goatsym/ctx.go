package main

// Native model of package context, and of proto.Marshal/Unmarshal (wire tokens).

import (
	"fmt"
	"go/types"
	"strings"

	"golang.org/x/tools/go/ssa"
)

func (e *Engine) ctxType() types.Type {
	if e.ctxT == nil {
		p := e.p.pkgs["context"]
		e.ctxT = types.NewPointer(p.Type("cancelCtx").Type())
	}
	return e.ctxT
}

func (e *Engine) ctxIface(id int) Value {
	return Iface{t: e.ctxType(), v: Ptr{obj: id}}
}

func (e *Engine) ctxOf(s *State, v Value) int {
	i, ok := v.(Iface)
	if !ok || i.t == nil {
		e.gopanic("cannot create context from nil parent")
	}
	if !types.Identical(i.t, e.ctxType()) {
		unsup("context implementation %s outside the model", i.t)
	}
	return i.v.(Ptr).obj
}

func (e *Engine) ctxGlobalErr(s *State, name string) Value {
	g := e.p.pkgs["context"].Var(name)
	return e.load(s, Ptr{obj: e.globalID(g)})
}

func (e *Engine) newCtx(s *State, parent int, site string) (int, *Object) {
	done := s.alloc(&Object{ch: &ChanData{cap: 0}, label: "ctx.done"})
	id := s.alloc(&Object{ctx: &CtxData{parent: parent, done: done, err: Iface{}, cause: Iface{}, site: site}, label: "ctx"})
	o := e.wobj(s, id)
	root := e.cancelRoot(s, parent)
	if root != 0 {
		po := e.obj(s, root)
		// inherit deadline
		if po.ctx.hasDeadline {
			o.ctx.hasDeadline = true
			o.ctx.deadline = po.ctx.deadline
		}
		if po.ctx.isDone {
			e.ctxCancel(s, id, po.ctx.err, po.ctx.cause)
		} else if root != e.bgCtx {
			pw := e.wobj(s, root)
			pw.ctx.children = append(pw.ctx.children, id)
		}
	}
	return id, e.wobj(s, id)
}

func (e *Engine) ctxCancel(s *State, id int, err, cause Value) {
	o := e.obj(s, id)
	if o.ctx.isDone {
		return
	}
	w := e.wobj(s, id)
	w.ctx.isDone = true
	w.ctx.err = err
	if c, ok := cause.(Iface); !ok || c.t == nil {
		cause = err
	}
	w.ctx.cause = cause
	w.ctx.armed = false
	if w.ctx.done != 0 {
		e.wobj(s, w.ctx.done).ch.closed = true
	}
	if s.race != nil && e.raceG >= 0 {
		// cancellation happens-before everything that observes it
		for _, k := range []string{fmt.Sprintf("c%d", w.ctx.done), fmt.Sprintf("ctx%d", id)} {
			s.race.sync[k] = vcJoin(s.race.sync[k], s.race.vcOf(e.raceG))
		}
	}
	children := w.ctx.children
	w.ctx.children = nil
	afs := w.ctx.afterFuncs
	w.ctx.afterFuncs = nil
	for _, c := range children {
		e.ctxCancel(s, c, err, cause)
	}
	// detach from parent
	if p := e.cancelRoot(s, w.ctx.parent); p != 0 && p != e.bgCtx {
		po := e.obj(s, p)
		for i, c := range po.ctx.children {
			if c == id {
				pw := e.wobj(s, p)
				pw.ctx.children = append(append([]int(nil), pw.ctx.children[:i]...), pw.ctx.children[i+1:]...)
				break
			}
		}
	}
	for _, f := range afs {
		if f != nil && f.native != "" {
			// a native closure (another context's cancel function): cancellation cascades at once
			switch f.native {
			case "ctx.cancel", "ctx.cancelCause":
				e.ctxCancel(s, f.data.(Ptr).obj, e.ctxGlobalErr(s, "Canceled"), Iface{})
			}
			continue
		}
		if f != nil {
			// run in its own goroutine (goat-owned: it was registered by library code)
			ng := &G{gen: s.gen, id: fmt.Sprintf("af%d.%d", id, len(s.gs)), name: "AfterFunc:" + shortFn(f.fn.String())}
			s.gs = append(s.gs, ng)
			e.pushFrame(s, ng, e.fnInfo(f.fn), nil, f.env, retGo)
		}
	}
}

func (e *Engine) ctxExpire(s *State, id int) {
	de := e.ctxGlobalErr(s, "DeadlineExceeded")
	e.ctxCancel(s, id, de, de)
}

func (e *Engine) cancelFunc(id int, cause bool) *FuncV {
	if cause {
		return &FuncV{native: "ctx.cancelCause", data: Ptr{obj: id}}
	}
	return &FuncV{native: "ctx.cancel", data: Ptr{obj: id}}
}

func (e *Engine) initNativeClosures() {
	e.nativeClosures = map[string]*Native{
		"ctx.cancel": {visible: true, fn: nil},
		"ctx.cancelCause": {visible: true, fn: nil},
		"ctx.stop": {visible: true, fn: nil},
	}
}

func (e *Engine) callNativeClosure(s *State, gi int, fv *FuncV, args []Value, kind retKind) {
	e.raceG = gi
	defer func() {
		if s.race != nil {
			s.race.tick(gi)
		}
	}()
	switch fv.native {
	case "ctx.cancel":
		id := fv.data.(Ptr).obj
		c := e.ctxGlobalErr(s, "Canceled")
		e.ctxCancel(s, id, c, Iface{})
		e.finishCall(s, gi, kind, nil)
	case "ctx.cancelCause":
		id := fv.data.(Ptr).obj
		c := e.ctxGlobalErr(s, "Canceled")
		e.ctxCancel(s, id, c, args[0])
		e.finishCall(s, gi, kind, nil)
	case "ctx.stop":
		d := fv.data.(Tuple)
		id := d[0].(Ptr).obj
		idx := int(d[1].(*Term).val)
		o := e.obj(s, id)
		if idx < len(o.ctx.afterFuncs) && o.ctx.afterFuncs[idx] != nil {
			w := e.wobj(s, id)
			w.ctx.afterFuncs[idx] = nil
			e.finishCall(s, gi, kind, e.ts.True)
			return
		}
		e.finishCall(s, gi, kind, e.ts.False)
	default:
		panic(engineErr("unknown native closure " + fv.native))
	}
}

func (e *Engine) ctxNative(fi *FnInfo) *Native {
	ts := e.ts
	name := fi.name
	if !strings.Contains(name, "context.") {
		return nil
	}
	switch name {
	case "context.Background", "context.TODO":
		return simple(func(e *Engine, s *State, gi int, args []Value) Value { return e.ctxIface(e.bgCtx) })
	case "context.WithCancel", "context.WithCancelCause":
		cause := strings.HasSuffix(name, "Cause")
		return simple(func(e *Engine, s *State, gi int, args []Value) Value {
			p := e.ctxOf(s, args[0])
			id, _ := e.newCtx(s, p, e.whereAmI(s, gi))
			return Tuple{e.ctxIface(id), e.cancelFunc(id, cause)}
		})
	case "context.WithValue":
		return simple(func(e *Engine, s *State, gi int, args []Value) Value {
			p := e.ctxOf(s, args[0])
			if k, ok := args[1].(Iface); !ok || k.t == nil {
				e.gopanic("nil key")
			}
			po := e.obj(s, p)
			// value contexts share the parent's cancellation: same done channel, no own state.
			id := s.alloc(&Object{ctx: &CtxData{parent: p, done: po.ctx.done, isValue: true, key: args[1], val: args[2], err: Iface{}, cause: Iface{}}, label: "ctx.value"})
			return e.ctxIface(id)
		})
	case "context.WithoutCancel":
		// keeps the parent's values (lookups walk the parent chain), drops its cancellation and deadline
		return simple(func(e *Engine, s *State, gi int, args []Value) Value {
			p := e.ctxOf(s, args[0])
			// Done() of such a context is a nil channel (done: 0), as in the standard library
			id := s.alloc(&Object{ctx: &CtxData{parent: p, done: 0, err: Iface{}, cause: Iface{}, site: "WithoutCancel"}, label: "ctx"})
			return e.ctxIface(id)
		})
	case "context.WithTimeout", "context.WithDeadline":
		isTimeout := name == "context.WithTimeout"
		return simple(func(e *Engine, s *State, gi int, args []Value) Value {
			p := e.ctxOf(s, args[0])
			var dl *Term
			expired := ts.False
			if isTimeout {
				expired = ts.Cmp(OpSle, args[1].(*Term), ts.Const(64, 0))
			} else {
				dl = e.timeNs(args[1])
				if s.clock != nil {
					expired = ts.Cmp(OpSle, dl, s.clock)
				}
			}
			isExp := e.decide(s, expired)
			pc := e.cancelRoot(s, p)
			po := e.obj(s, pc)
			if isTimeout {
				if po.ctx.hasDeadline && s.clock != nil {
					// compare against the parent's deadline using the last observed instant
					dl0 := ts.BV(OpAdd, s.clock, args[1].(*Term))
					if e.decide(s, ts.Cmp(OpSle, po.ctx.deadline, dl0)) {
						id, _ := e.newCtx(s, p, e.whereAmI(s, gi))
						return Tuple{e.ctxIface(id), e.cancelFunc(id, false)}
					}
				}
				dl = ts.BV(OpAdd, e.now(s), args[1].(*Term))
			} else if po.ctx.hasDeadline {
				if e.decide(s, ts.Cmp(OpSle, po.ctx.deadline, dl)) {
					id, _ := e.newCtx(s, p, e.whereAmI(s, gi))
					return Tuple{e.ctxIface(id), e.cancelFunc(id, false)}
				}
			}
			id, o := e.newCtx(s, p, e.whereAmI(s, gi))
			o.ctx.hasDeadline = true
			o.ctx.deadline = dl
			if isExp {
				e.ctxExpire(s, id)
			} else if !e.obj(s, id).ctx.isDone {
				e.wobj(s, id).ctx.armed = s.timers
			}
			return Tuple{e.ctxIface(id), e.cancelFunc(id, false)}
		})
	case "context.Cause":
		return visible(func(e *Engine, s *State, gi int, args []Value) Value {
			id := e.cancelRoot(s, e.ctxOf(s, args[0]))
			return e.obj(s, id).ctx.cause
		})
	case "context.AfterFunc":
		return visible(func(e *Engine, s *State, gi int, args []Value) Value {
			id := e.cancelRoot(s, e.ctxOf(s, args[0]))
			f := args[1].(*FuncV)
			o := e.obj(s, id)
			if o.ctx.isDone && f.native != "" {
				e.ctxCancel(s, f.data.(Ptr).obj, e.ctxGlobalErr(s, "Canceled"), Iface{})
				return &FuncV{native: "ctx.stop", data: Tuple{Ptr{obj: id}, ts.Const(64, 1<<20)}}
			}
			if o.ctx.isDone {
				ng := &G{gen: s.gen, id: fmt.Sprintf("af%d.%d", id, len(s.gs)), name: "AfterFunc"}
				s.gs = append(s.gs, ng)
				e.pushFrame(s, ng, e.fnInfo(f.fn), nil, f.env, retGo)
				return &FuncV{native: "ctx.stop", data: Tuple{Ptr{obj: id}, ts.Const(64, 1<<20)}}
			}
			w := e.wobj(s, id)
			w.ctx.afterFuncs = append(w.ctx.afterFuncs, f)
			return &FuncV{native: "ctx.stop", data: Tuple{Ptr{obj: id}, ts.Const(64, uint64(len(w.ctx.afterFuncs)-1))}}
		})
	case "(*context.cancelCtx).Done":
		return simple(func(e *Engine, s *State, gi int, args []Value) Value {
			id := args[0].(Ptr).obj
			return ChanV{obj: e.obj(s, id).ctx.done}
		})
	case "(*context.cancelCtx).Err":
		return visible(func(e *Engine, s *State, gi int, args []Value) Value {
			id := e.cancelRoot(s, args[0].(Ptr).obj)
			e.raceAcquire(s, gi, fmt.Sprintf("ctx%d", id))
			return e.obj(s, id).ctx.err
		})
	case "(*context.cancelCtx).Deadline":
		return simple(func(e *Engine, s *State, gi int, args []Value) Value {
			id := e.cancelRoot(s, args[0].(Ptr).obj)
			o := e.obj(s, id)
			tt := fi.fn.Signature.Results().At(0).Type()
			if o.ctx.hasDeadline {
				return Tuple{e.timeVal(tt, o.ctx.deadline), ts.True}
			}
			return Tuple{e.zero(tt), ts.False}
		})
	case "(*context.cancelCtx).Value":
		return simple(func(e *Engine, s *State, gi int, args []Value) Value {
			id := args[0].(Ptr).obj
			for id != 0 {
				o := e.obj(s, id)
				if o.ctx.isValue {
					if e.decide(s, e.equal(o.ctx.key, args[1])) {
						return o.ctx.val
					}
				}
				id = o.ctx.parent
			}
			return Iface{}
		})
	case "(*context.cancelCtx).String":
		return simple(func(e *Engine, s *State, gi int, args []Value) Value { return "context(model)" })
	}
	return nil
}

// cancelRoot skips value contexts (which share their parent's cancellation state).
func (e *Engine) cancelRoot(s *State, id int) int {
	for id != 0 {
		o := e.obj(s, id)
		if !o.ctx.isValue {
			return id
		}
		id = o.ctx.parent
	}
	return e.bgCtx
}

// ---- errors / proto -------------------------------------------------------------------

func (e *Engine) newError(s *State, msg string) Value {
	p := e.p.pkgs["errors"]
	t := p.Type("errorString").Type()
	id := s.alloc(&Object{v: &StructV{f: []Value{msg}}, label: "error"})
	return Iface{t: types.NewPointer(t), v: Ptr{obj: id}}
}

func (e *Engine) normaliseWire(s *State, v Value) Value {
	switch x := v.(type) {
	case Slice:
		if x.ln == 0 {
			return Slice{}
		}
		arr := e.sliceArr(s, x)
		el := make([]Value, x.ln)
		for i := 0; i < x.ln; i++ {
			el[i] = e.normaliseWire(s, arr.e[x.off+i])
		}
		id := s.alloc(&Object{v: &ArrayV{el}, label: "wire"})
		return Slice{obj: id, ln: x.ln, cap: x.ln}
	case Ptr:
		if x.obj == 0 {
			return x
		}
		o := e.obj(s, x.obj)
		id := s.alloc(&Object{v: e.normaliseWire(s, o.v), label: "wire"})
		return Ptr{obj: id}
	case *StructV:
		f := make([]Value, len(x.f))
		for i := range f {
			f[i] = e.normaliseWire(s, x.f[i])
		}
		return &StructV{f}
	case MapV:
		return x
	}
	return v
}

func (e *Engine) protoNative(fi *FnInfo) *Native {
	switch fi.name {
	case "google.golang.org/protobuf/proto.Marshal":
		return simple(func(e *Engine, s *State, gi int, args []Value) Value {
			return e.protoMarshal(s, args[0].(Iface))
		})
	case "(google.golang.org/protobuf/proto.MarshalOptions).MarshalAppend":
		// MarshalAppend(b, m) with an empty b (the buffer-reuse idiom): the encoding of m
		return simple(func(e *Engine, s *State, gi int, args []Value) Value {
			if b, ok := args[1].(Slice); ok && b.ln != 0 {
				unsup("proto MarshalAppend onto a non-empty buffer")
			}
			return e.protoMarshal(s, args[2].(Iface))
		})
	case "google.golang.org/protobuf/proto.Unmarshal":
		return simple(func(e *Engine, s *State, gi int, args []Value) Value {
			b := args[0].(Slice)
			m := args[1].(Iface)
			dst := m.v.(Ptr)
			if b.obj != 0 && b.ln == 1 {
				if tok, ok := e.sliceArr(s, b).e[b.off].(Tuple); ok {
					src := tok[0].(Ptr)
					nv := e.normaliseWire(s, e.obj(s, src.obj).v)
					e.store(s, dst, nv)
					return Iface{}
				}
			}
			if b.ln == 0 {
				// empty input decodes to the zero message
				e.store(s, dst, e.zero(m.t.Underlying().(*types.Pointer).Elem()))
				return Iface{}
			}
			return e.newError(s, "proto: cannot parse invalid wire-format data")
		})
	}
	return nil
}

// protoMarshal: the wire-token model of proto.Marshal.
func (e *Engine) protoMarshal(s *State, m Iface) Value {
	if m.t == nil {
		return Tuple{Slice{}, Iface{}}
	}
	p := m.v.(Ptr)
	if p.obj == 0 {
		return Tuple{Slice{}, Iface{}}
	}
	// a message whose every field is absent or zero encodes to zero bytes
	if st, ok := m.t.Underlying().(*types.Pointer).Elem().Underlying().(*types.Struct); ok {
		if z := e.protoIsZero(s, e.load(s, p), st); e.decide(s, z) {
			return Tuple{Slice{}, Iface{}}
		}
	}
	snap := e.deepClone(s, p, map[int]int{})
	id := s.alloc(&Object{v: &ArrayV{e: []Value{Tuple{snap}}}, label: "wire-token"})
	return Tuple{Slice{obj: id, ln: 1, cap: 1}, Iface{}}
}

// protoIsZero: does a generated message struct hold only absent / zero-valued fields (so that its
// wire encoding is empty)? Unexported bookkeeping fields are ignored.
func (e *Engine) protoIsZero(s *State, v Value, st *types.Struct) *Term {
	ts := e.ts
	sv, ok := v.(*StructV)
	if !ok {
		return ts.False
	}
	acc := ts.True
	for i := 0; i < st.NumFields(); i++ {
		f := st.Field(i)
		if !f.Exported() {
			continue
		}
		switch x := sv.f[i].(type) {
		case *Term:
			if x.w == 0 {
				acc = ts.And(acc, ts.Not(x))
			} else {
				acc = ts.And(acc, ts.Eq(x, ts.Const(x.w, 0)))
			}
		case string:
			if x != "" {
				return ts.False
			}
		case *SymStr:
			if len(x.b) > 0 {
				return ts.False
			}
		case Ptr:
			if x.obj != 0 {
				return ts.False
			}
		case Slice:
			if x.ln != 0 {
				return ts.False
			}
		case MapV:
			if x.obj != 0 && len(e.obj(s, x.obj).m.keys) > 0 {
				return ts.False
			}
		case Iface:
			if x.t != nil {
				return ts.False
			}
		default:
			return ts.False
		}
	}
	return acc
}

var _ *ssa.Function
