package main

// SMT back ends: a long-lived `z3 -in` process (incremental, define-fun per
// hash-consed term) and one-shot fall-backs (cvc5 --solve-bv-as-int=sum,
// z3-new, plain cvc5). Any "(error" line makes a query inconclusive.

import (
	"bufio"
	"bytes"
	"fmt"
	"io"
	"os"
	"os/exec"
	"sort"
	"strconv"
	"strings"
	"time"
)

type Result int

const (
	Unsat Result = iota
	Sat
	Unknown
)

func (r Result) String() string { return [...]string{"unsat", "sat", "unknown"}[r] }

type SolverStats struct {
	Queries   int
	Sat       int
	Unsat     int
	Unknown   int
	Fallback  map[string]int
	WallS     float64
	Restarts  int
	CrossOK   int
	CrossDiff int
}

type Solver struct {
	ts        *TermStore
	cmd       *exec.Cmd
	in        io.WriteCloser
	lines     chan string
	defined   map[int]bool
	declared  map[string]bool
	tblDef    map[int]bool
	Stats     SolverStats
	TimeoutMs int
	FallbackS int
	Cross     bool
	RaceMs    int
	divMemo   map[int]bool
	logf      *os.File
}

func NewSolver(ts *TermStore) *Solver {
	s := &Solver{ts: ts, TimeoutMs: 15000, FallbackS: 60, RaceMs: 500}
	s.Stats.Fallback = map[string]int{}
	if p := os.Getenv("GOATSYM_SMTLOG"); p != "" {
		s.logf, _ = os.Create(p)
	}
	return s
}

func (s *Solver) start() error {
	s.defined = map[int]bool{}
	s.declared = map[string]bool{}
	s.tblDef = map[int]bool{}
	cmd := exec.Command("z3", "-in")
	in, err := cmd.StdinPipe()
	if err != nil {
		return err
	}
	out, err := cmd.StdoutPipe()
	if err != nil {
		return err
	}
	cmd.Stderr = cmd.Stdout
	if err := cmd.Start(); err != nil {
		return err
	}
	s.cmd, s.in = cmd, in
	s.lines = make(chan string, 64)
	go func(ch chan string) {
		sc := bufio.NewScanner(out)
		sc.Buffer(make([]byte, 1<<20), 1<<26)
		for sc.Scan() {
			ch <- sc.Text()
		}
		close(ch)
	}(s.lines)
	s.send(fmt.Sprintf("(set-option :timeout %d)\n(set-option :produce-models true)\n", s.TimeoutMs))
	return nil
}

func (s *Solver) Close() {
	if s.cmd != nil {
		s.in.Close()
		s.cmd.Process.Kill()
		s.cmd.Wait()
		s.cmd = nil
	}
}

func (s *Solver) send(txt string) {
	if s.logf != nil {
		s.logf.WriteString(txt)
	}
	io.WriteString(s.in, txt)
}

func (s *Solver) readLine(d time.Duration) (string, bool) {
	select {
	case l, ok := <-s.lines:
		return l, ok
	case <-time.After(d):
		return "", false
	}
}

// emit declarations/definitions needed by roots (at base level)
func (s *Solver) define(roots []*Term, sb *strings.Builder, defined map[int]bool, declared map[string]bool, tblDef map[int]bool) []*Term {
	var order []*Term
	seen := map[int]bool{}
	collect(roots, seen, &order)
	var vars []*Term
	for _, t := range order {
		switch t.op {
		case OpConst:
		case OpVar:
			vars = append(vars, t)
			if !declared[t.name] {
				declared[t.name] = true
				fmt.Fprintf(sb, "(declare-const %s %s)\n", smtVarName(t.name), sortStr(t.w))
			}
		default:
			if t.tbl != nil && !tblDef[t.tbl.id] {
				tblDef[t.tbl.id] = true
				sb.WriteString(t.tbl.smtDef())
				sb.WriteByte('\n')
			}
			if !defined[t.id] {
				defined[t.id] = true
				fmt.Fprintf(sb, "(define-fun t%d () %s %s)\n", t.id, sortStr(t.w), t.smtBody())
			}
		}
	}
	return vars
}

func parseModel(txt string, vars []*Term) Model {
	m := Model{}
	// entries look like (|name| #x0a) or (|name| true) or (|name| (_ bv10 8))
	for _, v := range vars {
		key := smtVarName(v.name)
		i := strings.Index(txt, "("+key+" ")
		if i < 0 {
			key = v.name
			i = strings.Index(txt, "("+key+" ")
			if i < 0 {
				continue
			}
		}
		rest := txt[i+len(key)+2:]
		rest = strings.TrimSpace(rest)
		switch {
		case strings.HasPrefix(rest, "true"):
			m[v.name] = 1
		case strings.HasPrefix(rest, "false"):
			m[v.name] = 0
		case strings.HasPrefix(rest, "#x"):
			j := 2
			for j < len(rest) && isHex(rest[j]) {
				j++
			}
			u, _ := strconv.ParseUint(rest[2:j], 16, 64)
			m[v.name] = u
		case strings.HasPrefix(rest, "#b"):
			j := 2
			for j < len(rest) && (rest[j] == '0' || rest[j] == '1') {
				j++
			}
			u, _ := strconv.ParseUint(rest[2:j], 2, 64)
			m[v.name] = u
		case strings.HasPrefix(rest, "(_ bv"):
			j := 5
			for j < len(rest) && rest[j] >= '0' && rest[j] <= '9' {
				j++
			}
			u, _ := strconv.ParseUint(rest[5:j], 10, 64)
			m[v.name] = u
		}
	}
	return m
}

func isHex(c byte) bool {
	return (c >= '0' && c <= '9') || (c >= 'a' && c <= 'f') || (c >= 'A' && c <= 'F')
}

// Check decides satisfiability of the conjunction of assertions.
func (s *Solver) Check(assertions []*Term, wantModel bool) (Result, Model) {
	t0 := time.Now()
	defer func() { s.Stats.WallS += time.Since(t0).Seconds() }()
	s.Stats.Queries++
	// trivial cases
	var as []*Term
	for _, a := range assertions {
		if a.IsTrue() {
			continue
		}
		if a.IsFalse() {
			s.Stats.Unsat++
			return Unsat, nil
		}
		as = append(as, a)
	}
	tq := time.Now()
	res, m := s.checkZ3(as, wantModel)
	if d := time.Since(tq); d > 200*time.Millisecond && os.Getenv("GOATSYM_SLOW") != "" {
		fmt.Fprintf(os.Stderr, "SLOW QUERY %.2fs res=%v n=%d last=%v\n", d.Seconds(), res, len(as), as[0])
	}
	if res == Unknown {
		res, m = s.fallback(as, wantModel)
	} else if s.Cross {
		r2, _ := s.oneShot("z3-new", []string{"-in"}, as, false, 10)
		if r2 != Unknown && r2 != res {
			s.Stats.CrossDiff++
			fmt.Fprintf(os.Stderr, "SOLVER DISAGREEMENT: z3=%v z3-new=%v\n", res, r2)
			res, m = Unknown, nil
		} else if r2 != Unknown {
			s.Stats.CrossOK++
		}
	}
	switch res {
	case Sat:
		s.Stats.Sat++
		if wantModel && m != nil {
			// validate the model concretely
			memo := map[int]uint64{}
			for _, a := range as {
				if s.ts.Eval(a, m, memo) != 1 {
					fmt.Fprintf(os.Stderr, "MODEL VALIDATION FAILED for %v\n", a)
					if os.Getenv("GOATSYM_DUMPMODEL") != "" {
						fmt.Fprintf(os.Stderr, "  model: %v\n", m)
						txt, _ := s.script(as, true, "(set-option :produce-models true)\n(set-logic ALL)\n")
						os.WriteFile("/tmp/badmodel.smt2", []byte(txt), 0o644)
					}
					s.Stats.Unknown++
					return Unknown, nil
				}
			}
		}
	case Unsat:
		s.Stats.Unsat++
	default:
		s.Stats.Unknown++
	}
	return res, m
}

func (s *Solver) checkZ3(as []*Term, wantModel bool) (Result, Model) {
	if s.cmd == nil {
		if err := s.start(); err != nil {
			fmt.Fprintln(os.Stderr, "cannot start z3:", err)
			return Unknown, nil
		}
	}
	var sb strings.Builder
	vars := s.define(as, &sb, s.defined, s.declared, s.tblDef)
	sb.WriteString("(push 1)\n")
	for _, a := range as {
		fmt.Fprintf(&sb, "(assert %s)\n", a.smtRef())
	}
	sb.WriteString("(check-sat)\n")
	s.send(sb.String())
	deadline := time.Duration(s.TimeoutMs+5000) * time.Millisecond
	var res Result = Unknown
	gotErr := false
	type altRes struct {
		r Result
		m Model
	}
	var alt chan altRes
	raceMs := s.RaceMs
	if s.hasDiv(as) {
		raceMs = 1
	}
	race := time.After(time.Duration(raceMs) * time.Millisecond)
	final := time.After(deadline)
loop:
	for {
		var l string
		var ok bool
		select {
		case l, ok = <-s.lines:
			if !ok {
				s.Close()
				s.Stats.Restarts++
				return Unknown, nil
			}
		case <-race:
			// z3 is slow on this one: race it against cvc5's integer encoding
			alt = make(chan altRes, 1)
			go func() {
				r, m := s.oneShot("cvc5", []string{"--solve-bv-as-int=sum", "--lang=smt2"}, as, wantModel, s.FallbackS)
				alt <- altRes{r, m}
			}()
			continue
		case a := <-alt:
			alt = nil
			if a.r != Unknown {
				s.Close() // abandon the z3 query
				s.Stats.Restarts++
				s.Stats.Fallback["cvc5-bv-as-int(race)"]++
				return a.r, a.m
			}
			continue
		case <-final:
			s.Close()
			s.Stats.Restarts++
			return Unknown, nil
		}
		l = strings.TrimSpace(l)
		if strings.HasPrefix(l, "(error") {
			gotErr = true
			fmt.Fprintln(os.Stderr, "z3:", l)
			continue
		}
		switch l {
		case "sat":
			res = Sat
			break loop
		case "unsat":
			res = Unsat
			break loop
		case "unknown", "timeout":
			res = Unknown
			break loop
		}
	}
	if alt != nil {
		// a cvc5 run is still in flight; let it finish in the background (bounded by its timeout)
		go func(c chan altRes) { <-c }(alt)
	}
	var m Model
	if res == Sat && wantModel && len(vars) > 0 {
		var q strings.Builder
		q.WriteString("(get-value (")
		for _, v := range vars {
			q.WriteString(smtVarName(v.name))
			q.WriteByte(' ')
		}
		q.WriteString("))\n(echo \"@@done\")\n")
		s.send(q.String())
		var buf strings.Builder
		for {
			l, ok := s.readLine(deadline)
			if !ok {
				s.Close()
				s.Stats.Restarts++
				return Unknown, nil
			}
			if strings.Contains(l, "@@done") {
				break
			}
			if strings.HasPrefix(strings.TrimSpace(l), "(error") {
				gotErr = true
			}
			buf.WriteString(l)
			buf.WriteByte('\n')
		}
		m = parseModel(buf.String(), vars)
	} else if res == Sat && wantModel {
		m = Model{}
	}
	s.send("(pop 1)\n")
	if gotErr {
		return Unknown, nil
	}
	return res, m
}

func (s *Solver) script(as []*Term, wantModel bool, header string) (string, []*Term) {
	var sb strings.Builder
	sb.WriteString(header)
	vars := s.define(as, &sb, map[int]bool{}, map[string]bool{}, map[int]bool{})
	for _, a := range as {
		fmt.Fprintf(&sb, "(assert %s)\n", a.smtRef())
	}
	sb.WriteString("(check-sat)\n")
	if wantModel && len(vars) > 0 {
		sb.WriteString("(get-value (")
		sort.Slice(vars, func(i, j int) bool { return vars[i].name < vars[j].name })
		for _, v := range vars {
			sb.WriteString(smtVarName(v.name))
			sb.WriteByte(' ')
		}
		sb.WriteString("))\n")
	}
	return sb.String(), vars
}

func (s *Solver) oneShot(bin string, args []string, as []*Term, wantModel bool, timeoutS int) (Result, Model) {
	hdr := "(set-logic ALL)\n"
	if wantModel {
		hdr = "(set-option :produce-models true)\n" + hdr
	}
	txt, vars := s.script(as, wantModel, hdr)
	cmd := exec.Command("timeout", append([]string{strconv.Itoa(timeoutS), bin}, args...)...)
	cmd.Stdin = strings.NewReader(txt)
	var out bytes.Buffer
	cmd.Stdout = &out
	cmd.Stderr = &out
	cmd.Run()
	o := out.String()
	// any error reported before the verdict makes the run inconclusive; after an
	// "unsat" verdict the only possible error is get-value's "cannot get value".
	verdict := ""
	for _, l := range strings.Split(o, "\n") {
		l = strings.TrimSpace(l)
		if strings.HasPrefix(l, "(error") {
			if verdict != "unsat" {
				return Unknown, nil
			}
			continue
		}
		if verdict == "" && (l == "sat" || l == "unsat" || l == "unknown") {
			verdict = l
		}
	}
	switch verdict {
	case "sat":
		var m Model
		if wantModel {
			m = parseModel(o, vars)
		}
		return Sat, m
	case "unsat":
		return Unsat, nil
	}
	return Unknown, nil
}

func (s *Solver) fallback(as []*Term, wantModel bool) (Result, Model) {
	type be struct {
		name string
		bin  string
		args []string
	}
	for _, b := range []be{
		{"cvc5-bv-as-int", "cvc5", []string{"--solve-bv-as-int=sum", "--lang=smt2"}},
		{"z3-new", "z3-new", []string{"-in"}},
		{"cvc5", "cvc5", []string{"--lang=smt2"}},
	} {
		r, m := s.oneShot(b.bin, b.args, as, wantModel, s.FallbackS)
		if r != Unknown {
			s.Stats.Fallback[b.name]++
			return r, m
		}
	}
	return Unknown, nil
}

// hasDiv: does the query contain a division/remainder (bit-blasting back ends stall on these)?
func (s *Solver) hasDiv(as []*Term) bool {
	if s.divMemo == nil {
		s.divMemo = map[int]bool{}
	}
	var rec func(t *Term) bool
	rec = func(t *Term) bool {
		if v, ok := s.divMemo[t.id]; ok {
			return v
		}
		r := false
		switch t.op {
		case OpSDiv, OpUDiv, OpSRem, OpURem:
			r = true
		}
		for i := 0; i < t.n && !r; i++ {
			r = rec(t.a[i])
		}
		s.divMemo[t.id] = r
		return r
	}
	for _, a := range as {
		if rec(a) {
			return true
		}
	}
	return false
}
