package main

import "golang.org/x/tools/go/ssa"

func (e *Engine) raceAccess(s *State, gi int, p Ptr, write bool, in ssa.Instruction) {}

func (e *Engine) raceVis(s *State, gi int, fr *Frame, in ssa.Instruction) *VisOp { return nil }
