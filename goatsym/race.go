package main

// Race mode (C15): happens-before analysis with vector clocks over every explored
// schedule. Synchronisation operations of the native models create the happens-before
// edges of the Go memory model (approximated conservatively: a channel or context carries
// one clock, so extra ordering may be assumed - this can hide a race, never invent one).
// Plain loads/stores/map operations executed by goat's own code are checked against the
// previous conflicting accesses of the same cell.

import (
	"fmt"
	"sort"
	"strings"

	"golang.org/x/tools/go/ssa"
)

type VC []int32

func (v VC) get(i int) int32 {
	if i < len(v) {
		return v[i]
	}
	return 0
}

func vcJoin(a, b VC) VC {
	n := len(a)
	if len(b) > n {
		n = len(b)
	}
	out := make(VC, n)
	for i := range out {
		x, y := a.get(i), b.get(i)
		if x > y {
			out[i] = x
		} else {
			out[i] = y
		}
	}
	return out
}

type accessRec struct {
	wg     int   // goroutine index of last write (-1 none)
	wclk   int32
	wsite  string
	watom  bool // last write was an atomic operation
	reads  map[int]int32 // goroutine -> clock of its last read since the last write
	rsites map[int]string
}

type raceInfo struct {
	gvc    map[int]VC         // per goroutine index
	sync   map[string]VC      // per synchronisation object
	access map[string]*accessRec
}

func (r *raceInfo) hashInto(h *hasher) {}

func (r *raceInfo) clone() *raceInfo {
	c := &raceInfo{gvc: make(map[int]VC, len(r.gvc)), sync: make(map[string]VC, len(r.sync)), access: make(map[string]*accessRec, len(r.access))}
	for k, v := range r.gvc {
		c.gvc[k] = v
	}
	for k, v := range r.sync {
		c.sync[k] = v
	}
	for k, v := range r.access {
		c.access[k] = v // records are replaced, never mutated in place
	}
	return c
}

func (e *Engine) raceInit(s *State) {
	if e.raceMode && s.race == nil {
		s.race = &raceInfo{gvc: map[int]VC{}, sync: map[string]VC{}, access: map[string]*accessRec{}}
	}
}

func (r *raceInfo) vcOf(gi int) VC {
	v := r.gvc[gi]
	if v.get(gi) == 0 {
		nv := make(VC, max(len(v), gi+1))
		copy(nv, v)
		nv[gi] = 1
		r.gvc[gi] = nv
		return nv
	}
	return v
}

func (r *raceInfo) tick(gi int) {
	v := r.vcOf(gi)
	nv := make(VC, max(len(v), gi+1))
	copy(nv, v)
	nv[gi]++
	r.gvc[gi] = nv
}

// raceAcquire / raceRelease on a synchronisation object key
func (e *Engine) raceAcquire(s *State, gi int, key string) {
	if s.race == nil {
		return
	}
	if v, ok := s.race.sync[key]; ok {
		s.race.gvc[gi] = vcJoin(s.race.vcOf(gi), v)
	}
}

func (e *Engine) raceRelease(s *State, gi int, key string) {
	if s.race == nil {
		return
	}
	s.race.sync[key] = vcJoin(s.race.sync[key], s.race.vcOf(gi))
	s.race.tick(gi)
}

func (e *Engine) raceBoth(s *State, gi int, key string) {
	e.raceAcquire(s, gi, key)
	e.raceRelease(s, gi, key)
}

func (e *Engine) raceFork(s *State, parent, child int) {
	if s.race == nil {
		return
	}
	pv := s.race.vcOf(parent)
	cv := make(VC, max(len(pv), child+1))
	copy(cv, pv)
	cv[child] = 1
	s.race.gvc[child] = cv
	s.race.tick(parent)
}

func ptrKey(p Ptr) string {
	var sb strings.Builder
	fmt.Fprintf(&sb, "%d", p.obj)
	for _, x := range p.path {
		fmt.Fprintf(&sb, ".%d", x)
	}
	return sb.String()
}

func (e *Engine) inGoatCode(s *State, gi int) (bool, string) {
	g := s.gs[gi]
	if len(g.frames) == 0 {
		return false, ""
	}
	fr := g.frames[len(g.frames)-1]
	// harness code is not checked for races, except self-test bodies (zzAsGoat*), which stand in
	// for goat code to validate the synchronisation models
	if (fr.fi.isHarness && !strings.Contains(fr.fi.name, "zzAsGoat")) || !strings.HasPrefix(fr.fi.pkgPath, "github.com/avos-io/goat") || strings.Contains(fr.fi.pkgPath, "/gen/") {
		return false, ""
	}
	return true, shortFn(fr.fi.name)
}

func (e *Engine) raceAccess(s *State, gi int, p Ptr, write bool, in ssa.Instruction) {
	if s.race == nil || p.obj <= 0 || e.inInit {
		return
	}
	ok, fn := e.inGoatCode(s, gi)
	if !ok {
		return
	}
	e.raceCell(s, gi, ptrKey(p), write, fn+" @ "+e.posOf(in))
}

func (e *Engine) raceMap(s *State, gi int, obj int, write bool, in ssa.Instruction) {
	if s.race == nil || obj <= 0 || e.inInit {
		return
	}
	ok, fn := e.inGoatCode(s, gi)
	if !ok {
		return
	}
	e.raceCell(s, gi, fmt.Sprintf("m%d", obj), write, fn+" @ "+e.posOf(in))
}

func (e *Engine) raceCell(s *State, gi int, key string, write bool, site string) {
	e.raceCell2(s, gi, key, write, site, false)
}

// raceAtomic records an atomic read-modify-write of a cell: it conflicts with plain accesses
// of other goroutines that are not ordered with it, never with other atomic operations.
func (e *Engine) raceAtomic(s *State, gi int, p Ptr) {
	if s.race == nil || p.obj <= 0 || e.inInit {
		return
	}
	ok, fn := e.inGoatCode(s, gi)
	if !ok {
		// atomics are called from goat code through the sync/atomic wrappers: use the caller frame
		fn = e.siteGoat(s, gi)
	}
	e.raceCell2(s, gi, ptrKey(p), true, fn+" (atomic)", true)
}

func (e *Engine) raceCell2(s *State, gi int, key string, write bool, site string, atomic bool) {
	r := s.race
	vc := r.vcOf(gi)
	rec := r.access[key]
	report := func(otherG int, otherSite string, kind string) {
		a, b := site, otherSite
		if a > b {
			a, b = b, a
		}
		label := kind + ": " + a + " <-> " + b
		e.report(s, "race", label, a, "data race ("+kind+") between g"+s.gs[gi].id+" at "+site+" and g"+s.gs[otherG].id+" at "+otherSite, nil, nil)
	}
	if rec != nil {
		if rec.wg >= 0 && rec.wg != gi && rec.wclk > vc.get(rec.wg) && !(atomic && rec.watom) {
			if write {
				report(rec.wg, rec.wsite, "write-write")
			} else {
				report(rec.wg, rec.wsite, "read-write")
			}
		}
		if write {
			gs := make([]int, 0, len(rec.reads))
			for g := range rec.reads {
				gs = append(gs, g)
			}
			sort.Ints(gs)
			for _, g := range gs {
				if g != gi && rec.reads[g] > vc.get(g) {
					report(g, rec.rsites[g], "read-write")
				}
			}
		}
	}
	nr := &accessRec{wg: -1}
	if rec != nil {
		*nr = *rec
	}
	if write {
		nr.wg, nr.wclk, nr.wsite, nr.watom = gi, vc.get(gi), site, atomic
		nr.reads, nr.rsites = nil, nil
	} else {
		reads := make(map[int]int32, len(nr.reads)+1)
		sites := make(map[int]string, len(nr.rsites)+1)
		for k, v := range nr.reads {
			reads[k] = v
		}
		for k, v := range nr.rsites {
			sites[k] = v
		}
		reads[gi] = vc.get(gi)
		sites[gi] = site
		nr.reads, nr.rsites = reads, sites
	}
	r.access[key] = nr
}

func (e *Engine) raceVis(s *State, gi int, fr *Frame, in ssa.Instruction) *VisOp { return nil }
