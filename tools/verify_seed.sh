#!/bin/bash
# usage: verify_seed.sh <PID> [suffix]   confirms a seeded change in its scratch worktree /tmp/wt_<PID>:
#   existing tests pass with the change; the demo fails with it and passes without it.
PID="$1"; SFX="$2"; WT=/tmp/${WTPREFIX:-wt}_$PID; SEED=/tmp/seedstore/$PID$SFX
export GOFLAGS=-mod=mod GOPROXY=off GOSUMDB=off GOTOOLCHAIN=local
mkdir -p /tmp/seedstore
if [ ! -d "$SEED" ]; then cp -r $WT/seed $SEED || exit 2; fi
cd $WT || exit 2
git checkout -q -- . ; git clean -fdq
pkg=$(grep -m1 '^package ' $SEED/demo_test.go | awk '{print $2}')
case "$pkg" in
  goat|goat_test) dest=. ;;
  client|client_test) dest=internal/client ;;
  server|server_test) dest=internal/server ;;
  internal|internal_test) dest=internal ;;
  *) echo "unknown package $pkg"; exit 2 ;;
esac
echo "demo package=$pkg dest=$dest"
git apply --check $SEED/patch.diff || { echo "patch does not apply"; exit 3; }
# without the change: demo passes
cp $SEED/demo_test.go $dest/zz_seed_demo_test.go
( cd $dest && timeout 600 go test -vet=off -count=1 -run "$(grep -o '^func Test[A-Za-z0-9_]*' $SEED/demo_test.go | sed 's/func //' | paste -sd'|')" . > /tmp/seed_$PID.without.log 2>&1 ); r0=$?
git apply $SEED/patch.diff
go build ./... || { echo "does not build"; exit 4; }
( cd $dest && timeout 600 go test -vet=off -count=1 -run "$(grep -o '^func Test[A-Za-z0-9_]*' $SEED/demo_test.go | sed 's/func //' | paste -sd'|')" . > /tmp/seed_$PID.with.log 2>&1 ); r1=$?
rm -f $dest/zz_seed_demo_test.go
# existing suite with the change (retry once for the known-flaky test)
timeout 900 go test -vet=off -count=1 ./... > /tmp/seed_$PID.suite.log 2>&1; rs=$?
if [ $rs -ne 0 ]; then timeout 900 go test -vet=off -count=1 ./... > /tmp/seed_$PID.suite.log 2>&1; rs=$?; fi
if [ $rs -ne 0 ]; then timeout 900 go test -vet=off -count=1 ./... > /tmp/seed_$PID.suite.log 2>&1; rs=$?; fi
git checkout -q -- . ; git clean -fdq
echo "RESULT $PID: demo-without=$r0 (want 0) demo-with=$r1 (want !=0) suite-with=$rs (want 0)"
