#!/usr/bin/env python3
"""Regenerates the last section of DESIGN.md ("What each registered check actually explores") from
harness/properties.json."""
import json, re, os
here = os.path.dirname(os.path.abspath(__file__))
root = os.path.dirname(here)
specs = json.load(open(os.path.join(root, 'harness/properties.json')))
MARK = "### 9.9 What each registered check actually explores (generated from harness/properties.json)"
out = [MARK, "",
       "Every job is one harness entry point (`H_*` in `/verif/harness/<pkg>/`) executed symbolically on the current tree with the given parameters; `quick`/`thorough` give the number of jobs. Jobs marked race run in race mode; twins are jobs that must FAIL (vacuity / model self-tests).", ""]
for pid in sorted(specs):
    sp = specs[pid]
    hs = sorted(set(j['H'] for j in sp['quick'] + sp.get('thorough', [])))
    nr = sum(1 for j in sp['quick'] if j.get('race'))
    nt = sum(1 for j in sp['quick'] if j.get('twin'))
    extra = []
    if nr: extra.append("%d race" % nr)
    if nt: extra.append("%d twins" % nt)
    out.append("**%s** — %s. Jobs: quick %d%s, thorough %d. Harnesses: %s.  " % (pid, sp['title'], len(sp['quick']), (" (" + ", ".join(extra) + ")" if extra else ""), len(sp.get('thorough', [])), ", ".join("`%s`" % h for h in hs)))
    out.append("Bounds: " + sp['bounds'] + "  ")
    if sp.get('assumptions'):
        out.append("Assumptions beyond the common ones: " + "; ".join(sp['assumptions']) + ".")
    out.append("")
p = os.path.join(root, 'DESIGN.md')
s = open(p).read()
m = re.search(r'^### 9\.\d+ What each registered check actually explores.*', s, re.M | re.S)
if m:
    s = s[:m.start()]
s = s.rstrip('\n') + "\n\n" + "\n".join(out)
open(p, 'w').write(s)
print("DESIGN.md summary regenerated")
