#!/usr/bin/env python3
"""split_harness.py SRC DST name1 name2 ... : move top-level decls (func/type/const/var, with their
leading comments) from harness file SRC to DST (created with SRC's imports if absent), then prune
unused imports in both."""
import re, sys, os
src, dst, names = sys.argv[1], sys.argv[2], sys.argv[3:]
s = open(src).read()
m = re.search(r'^import \((.*?)^\)\n', s, re.S | re.M)
imports = m.group(0) if m else ''
pkg = re.search(r'^package (\w+)', s, re.M).group(1)
if os.path.exists(dst):
    d = open(dst).read()
else:
    d = '//go:build verif\n\npackage %s\n\n%s' % (pkg, imports)
for n in names:
    pat = r'((?:^//[^\n]*\n)*)^(?:func (?:\([^)]*\) )?%s\([^\n]*\}\n|func (?:\([^)]*\) )?%s\(.*?^}\n|type %s [^\n]*\}\n|type %s (?:struct|interface) ?\{.*?^}\n|type %s [^\n{]*\n|(?:const|var) %s [^\n]*\n)' % (n, n, n, n, n, n)
    mm = re.search(pat, s, re.S | re.M)
    if not mm:
        sys.exit('not found: ' + n)
    blk = mm.group(0)
    s = s.replace(blk, '', 1)
    d = d.rstrip() + '\n\n' + blk
def prune(t):
    m = re.search(r'^import \((.*?)^\)\n', t, re.S | re.M)
    if not m:
        return t
    body = t[:m.start()] + t[m.end():]
    body_nc = re.sub(r'//[^\n]*', '', body)
    keep = []
    for line in m.group(1).split('\n'):
        im = re.match(r'\s*(?:(\w+) )?"([^"]+)"', line)
        if not im:
            keep.append(line)
            continue
        name = im.group(1) or im.group(2).split('/')[-1]
        if re.search(r'(?<![\w.])' + re.escape(name) + r'\.', body_nc):
            keep.append(line)
    # collapse multiple blank lines
    txt = re.sub(r'\n{3,}', '\n\n', '\n'.join(keep))
    return t[:m.start()] + 'import (' + txt.rstrip('\n') + '\n)\n' + t[m.end():]
open(src, 'w').write(re.sub(r'\n{3,}', '\n\n', prune(s)))
open(dst, 'w').write(re.sub(r'\n{3,}', '\n\n', prune(d)))
