#!/bin/bash
# usage: try_wt.sh <patch.diff> [-R] <PROP>...
# Applies the patch to a scratch worktree of /repo (under /tmp), runs the quick checks against that
# worktree with evidence/counterexamples redirected to a scratch directory, prints one line per
# property and removes the worktree.  /repo and /verif/evidence are not touched.
PATCH="$(readlink -f "$1")"; shift
REV=""
if [ "$1" = "-R" ]; then REV="-R"; shift; fi
TIER="${TRY_TIER:-quick}"
WT=$(mktemp -d /tmp/trywt.XXXXXX); OUT=$(mktemp -d /tmp/tryout.XXXXXX)
cleanup() { git -C /repo worktree remove --force "$WT" 2>/dev/null; rm -rf "$WT" "$OUT"; git -C /repo worktree prune; }
trap cleanup EXIT
rmdir "$WT"; git -C /repo worktree add -q --detach "$WT" HEAD || exit 2
# carry uncommitted /repo changes? no: the scratch tree is HEAD + patch.
cd "$WT" || exit 2
if git apply $REV --check "$PATCH" 2>/dev/null; then
  git apply $REV "$PATCH"
elif [ -z "$REV" ] && patch -p1 -F3 -s --dry-run < "$PATCH" >/dev/null 2>&1; then
  # the patch predates later fix commits: context lines moved, apply with fuzz
  patch -p1 -F3 -s < "$PATCH"; find . -name '*.orig' -delete
else
  echo "PATCH-DOES-NOT-APPLY $PATCH"; exit 3
fi
export GOFLAGS=-mod=mod GOPROXY=off GOSUMDB=off GOTOOLCHAIN=local
if ! go build ./... 2>/dev/null; then echo "DOES-NOT-BUILD $PATCH"; exit 4; fi
cd /verif
for P in "$@"; do
  L=${TRY_LOGDIR:-/tmp}/try_$(basename $(dirname "$PATCH"))_$P.log
  VERIF_REPO="$WT" VERIF_OUT="$OUT" ./check $P $TIER > "$L" 2>&1
  rc=$?
  echo "$(basename $(dirname "$PATCH"))/$(basename "$PATCH") $P exit=$rc $(grep -c '^VIOLATION' "$L") violation lines; $(grep -h 'confirmed:' "$L" | head -2 | cut -c1-160 | tr '\n' '|')"
done
