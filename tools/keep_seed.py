#!/usr/bin/env python3
# usage: keep_seed.py <PID> <suffix> <round> "<change>" "<needs>" "<detected_by>"
# copies a confirmed seeded change from /tmp/seedstore/<PID><suffix> to /verif/seeded/<PID><suffix>/
import sys, os, shutil, json
pid, sfx, rnd, change, needs, det = sys.argv[1:7]
src = '/tmp/seedstore/%s%s' % (pid, sfx); dst = '/verif/seeded/%s%s' % (pid, sfx)
os.makedirs(dst, exist_ok=True)
shutil.copy(src + '/patch.diff', dst + '/patch.diff')
shutil.copy(src + '/demo_test.go', dst + '/demo_test.go.txt')
if os.path.exists(src + '/notes.md'):
    shutil.copy(src + '/notes.md', dst + '/agent_notes.md')
json.dump({
    "property": pid, "round": int(rnd), "change": change, "needs_to_manifest": needs,
    "origin": "independent sub-agent; saw the property text, one-line descriptions of the earlier seeds (told to touch a different function) and a scratch worktree of /repo",
    "confirmed": "WTPREFIX=w%s tools/verify_seed.sh %s %s: existing suite passes with the change, demo passes without the change and fails with it" % (rnd, pid, sfx),
    "checks_run": "tools/try_wt.sh seeded/%s%s/patch.diff %s" % (pid, sfx, pid),
    "detected_by": det,
}, open(dst + '/meta.json', 'w'), indent=1)
print("kept", dst)
