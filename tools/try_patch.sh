#!/bin/bash
# usage: try_patch.sh <patch.diff> [-R] <PROP>...   applies the patch to /repo, runs the quick checks, restores /repo.
PATCH="$1"; shift
REV=""
if [ "$1" = "-R" ]; then REV="-R"; shift; fi
cd /repo || exit 2
if [ -n "$(git status --porcelain)" ]; then echo "repo dirty"; exit 2; fi
if ! git apply $REV --check "$PATCH" 2>/dev/null; then echo "PATCH-DOES-NOT-APPLY $PATCH"; exit 3; fi
git apply $REV "$PATCH"
export GOFLAGS=-mod=mod GOPROXY=off GOSUMDB=off GOTOOLCHAIN=local
if ! go build ./... 2>/dev/null; then echo "DOES-NOT-BUILD"; git checkout -- .; exit 4; fi
cd /verif
for P in "$@"; do
  ./check $P quick > /tmp/try_$P.log 2>&1
  rc=$?
  echo "$P exit=$rc $(grep -c '^VIOLATION' /tmp/try_$P.log) violation lines; $(grep -h 'confirmed:' /tmp/try_$P.log | head -2 | cut -c1-160 | tr '\n' '|')"
done
cd /repo && git checkout -- . && git status --porcelain | head -2
