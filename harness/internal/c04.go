//go:build verif

package internal

import (
	"google.golang.org/grpc/metadata"
)

// zzKey returns key name `base` with every letter in symbolic case.
func zzKey(base string) string {
	b := make([]byte, len(base))
	for i := 0; i < len(base); i++ {
		c := base[i]
		if c >= 'a' && c <= 'z' {
			x := vfByte("case")
			vfAssume(x|0x20 == c)
			c = x
		}
		b[i] = c
	}
	return string(b)
}

func zzLower(s string) string {
	b := make([]byte, len(s))
	for i := 0; i < len(s); i++ {
		b[i] = s[i] | 0x20 // keys are letters and '-' only ('-' | 0x20 == '-')
	}
	return string(b)
}

// H_C04_roundtrip: ToMetadata(ToKeyValue(md)) for a symbolic metadata set: K keys (text or
// -bin, any letter case), V values per key, every value of length 0..vlen with arbitrary
// bytes (text values are sent as they are, -bin values through base64).
func H_C04_roundtrip() {
	K := vfParam("K", 2)
	V := vfParam("V", 2)
	vlen := vfParam("vlen", 2)
	names := []string{"ka", "kb-bin", "kc"}
	if vfParam("allbin", 0) == 1 {
		names = []string{"ka-bin", "kb-bin", "kc-bin"}
	}
	md := metadata.MD{}
	keys := make([]string, K)
	vals := make([][]string, K)
	for i := 0; i < K; i++ {
		keys[i] = zzKey(names[i])
		nv := 1 + vfChoice("nvals", V)
		for j := 0; j < nv; j++ {
			l := vfChoice("vlen", vlen+1)
			vals[i] = append(vals[i], vfString("val", l))
		}
		md[keys[i]] = vals[i]
	}
	kvs := ToKeyValue(md)
	out, err := ToMetadata(kvs)
	vfAssert(err == nil, "roundtrip-decodes")
	if err != nil {
		return
	}
	vfAssert(len(out) == K, "exactly-the-keys")
	for i := 0; i < K; i++ {
		got, ok := out[zzLower(keys[i])]
		vfAssert(ok, "key-present-lowercased")
		vfAssert(len(got) == len(vals[i]), "same-number-of-values")
		for j := 0; j < len(got) && j < len(vals[i]); j++ {
			vfAssert(got[j] == vals[i][j], "value-byte-exact-in-order")
		}
	}
	vfReach("checked")
}

// H_C04_join: ToKeyValue of several MDs (repeated SetHeader) keeps per-key order across MDs.
func H_C04_join() {
	a := metadata.MD{"k": {vfString("a", 1)}, "x-bin": {vfString("ab", 2)}}
	b := metadata.MD{"k": {vfString("b", 1)}}
	out, err := ToMetadata(ToKeyValue(a, b))
	vfAssert(err == nil, "decodes")
	vfAssert(len(out) == 2, "two-keys")
	vfAssert(len(out["k"]) == 2 && out["k"][0] == a["k"][0] && out["k"][1] == b["k"][0], "values-in-call-order")
	vfAssert(len(out["x-bin"]) == 1 && out["x-bin"][0] == a["x-bin"][0], "binary-value-exact")
	vfReach("checked")
}
