#!/usr/bin/env python3
# Generates harness/properties.json: property -> jobs (harness entry point + bounds) per tier.
import json, os, itertools
here = os.path.dirname(os.path.abspath(__file__))
P = {}

def job(H, conc=False, reach=None, **p):
    j = {"H": H, "p": p}
    if conc: j["conc"] = True
    if reach: j["required_reach"] = reach
    return j

# ---------------------------------------------------------------- C08
def c08_parse(n):
    r = ["malformed"] if n < 2 else ["malformed", "wellformed"] if n <= 9 else ["malformed", "overlong"]
    return job("H_C08_parse", reach=r, n=n)
c08_tail = [job("H_C08_client", reach=["future-deadline", "expired-deadline"]), job("H_C08_nodeadline", reach=["done"])]
P["C08"] = {
 "title": "caller deadlines reach the handler; timeout header values mean what they say",
 "bounds": "parser vs grammar: every byte string of each length 0..10 (quick) / 0..13 (thorough); header lookup: 2 entries (thorough 3), key from {grpc-timeout in any letter case, 3 other keys}, every 2-byte (thorough 3-byte) value; client encoding: every deadline from 18 min in the past to 10^4 h ahead, arbitrary non-decreasing clock instants",
 "assumptions": ["time.Now() returns arbitrary non-decreasing instants in [2^40, 2^60] ns; vfFreezeClock pins the instant observed inside one call",
   "time.Until/Time.Add/Sub modelled as 64-bit subtraction/addition (no monotonic-clock handling)",
   "strconv.ParseInt executed from its own SSA; fmt.Sprintf(\"%dm\") yields a digit string introduced by constraint (canonical form)"],
 "quick": [c08_parse(n) for n in range(0, 11)] + [job("H_C08_lookup", reach=["has-deadline", "no-deadline"], entries=2, vlen=2),
            job("H_C08_lookup", reach=["has-deadline", "no-deadline"], entries=1, vlen=3)] + c08_tail,
 "thorough": [c08_parse(n) for n in range(0, 14)] + [job("H_C08_lookup", reach=["has-deadline", "no-deadline"], entries=2, vlen=3),
            job("H_C08_lookup", reach=["has-deadline", "no-deadline"], entries=3, vlen=2)] + c08_tail,
}

# ---------------------------------------------------------------- C09
c09 = [job("H_C09_unary_race", conc=True, reach=["returned"])]
for k, t, p, w in itertools.product([0, 1], [0, 1, 2], [0, 1, 2], [0, 1]):
    if t != 0 and p != 0: continue
    if k == 0 and p == 2: continue
    c09.append(job("H_C09_fail", conc=True, kind=k, timing=t, prefix=p, wfail=w))
P["C09"] = {
 "title": "client transport failure fails every call, none hangs",
 "bounds": "one call (unary or stream) per scenario; read failure after every prefix (0..full) of the call's response sequence; call in flight before / racing with (no ordering: every interleaving incl. the check-then-register window) / started after the failure; write side healthy or failing; all schedules",
 "assumptions": ["transport honours its context (Read returns on ctx.Done)", "callers have no deadline (a hang shows as a blocked goroutine at quiescence)"],
 "quick": c09, "thorough": c09,
}

json.dump(P, open(os.path.join(here, "properties.json"), "w"), indent=1)
print("properties:", sorted(P))
