#!/usr/bin/env python3
# Generates harness/properties.json: property -> jobs (harness entry point + bounds) per tier.
import json, os, itertools
here = os.path.dirname(os.path.abspath(__file__))
P = {}

def job(harness, conc=False, reach=None, soft=None, **p):
    j = {"H": harness, "p": p}
    if conc: j["conc"] = True
    if reach: j["required_reach"] = reach
    if soft: j["soft_reach"] = soft
    return j

# ---------------------------------------------------------------- C08
def c08_parse(n):
    r = ["malformed"] if n < 2 else ["malformed", "wellformed"] if n <= 9 else ["malformed", "overlong"]
    return job("H_C08_parse", reach=r, n=n)
idioms = [job("H_selftest_idioms", reach=["checked"], part=p) for p in range(6)] + [job("H_selftest_idioms", conc=True, reach=["checked"], part=6)]
def c08e(kind, dl, md, **kw): return job("H_C08_e2e", conc=True, reach=["checked"], kind=kind, dl=dl, md=md, **kw)
c08_tail = [job("H_C08_client", reach=["future-deadline", "expired-deadline"]), job("H_C08_nodeadline", reach=["done"]), c08e(0, 1, 0), c08e(1, 1, 0), c08e(0, 0, 0), c08e(1, 0, 0), c08e(0, 1, 0, stats=1), c08e(1, 1, 0, stats=1)]
P["C08"] = {
 "title": "caller deadlines reach the handler; timeout header values mean what they say",
 "bounds": "parser vs grammar: every byte string of each length 0..10 (quick) / 0..13 (thorough); header lookup: 2 entries (thorough 3), key from {grpc-timeout in any letter case, 3 other keys}, every 2-byte (thorough 3-byte) value; client encoding: every deadline from 18 min in the past to 10^4 h ahead, arbitrary non-decreasing clock instants; end to end through the exported API (H_C08_e2e): one unary / one streaming call on a real client+server pair with such a deadline (or none), every schedule, every non-decreasing clock; a stream open with a valid timeout and undecodable metadata starts no handler (H_C12_seq first=8)",
 "assumptions": ["time.Now() returns arbitrary non-decreasing instants in [2^40, 2^60] ns; vfFreezeClock pins the instant observed inside one call",
   "time.Until/Time.Add/Sub modelled as 64-bit subtraction/addition (no monotonic-clock handling)",
   "strconv.ParseInt executed from its own SSA; fmt.Sprintf(\"%dm\") yields a digit string introduced by constraint (canonical form)"],
 "quick": [c08_parse(n) for n in range(0, 11)] + [job("H_C08_lookup", reach=["has-deadline", "no-deadline"], entries=2, vlen=2),
            job("H_C08_lookup", reach=["has-deadline", "no-deadline"], entries=1, vlen=3), job("H_selftest_lib", reach=["checked"])] + idioms + c08_tail + [job("H_C12_seq", conc=True, reach=["checked"], L=2, first=8, second=5)],  # an open whose headers cannot be decoded (timeout + bad -bin value) starts no handler: one would run without the caller's deadline
 "thorough": [c08_parse(n) for n in range(0, 14)] + [job("H_C08_lookup", reach=["has-deadline", "no-deadline"], entries=2, vlen=3),
            job("H_C08_lookup", reach=["has-deadline", "no-deadline"], entries=3, vlen=2)] + c08_tail + [c08e(0, 1, 1), c08e(1, 1, 1)],
}

# ---------------------------------------------------------------- C09
c09 = [job("H_C09_unary_race", conc=True, reach=["returned"])]
for k, t, p, w in itertools.product([0, 1], [0, 1, 2], [0, 1, 2], [0, 1]):
    if t != 0 and p != 0: continue
    if k == 0 and p == 2: continue
    c09.append(job("H_C09_fail", conc=True, kind=k, timing=t, prefix=p, wfail=w))
for e, p in itertools.product([1, 2], [0, 1, 2]):
    c09.append(job("H_C09_fail", conc=True, kind=1, timing=0, prefix=p, wfail=0, eof=e))
for e, k in itertools.product([3, 4], [0, 1]):
    c09.append(job("H_C09_fail", conc=True, kind=k, timing=0, prefix=0, wfail=0, eof=e))
c09.append(job("H_C09_fail", conc=True, kind=0, timing=0, prefix=0, wfail=0, eof=1))
P["C09"] = {
 "title": "client transport failure fails every call, none hangs",
 "bounds": "one call (unary or stream) per scenario; read failure after every prefix (0..full) of the call's response sequence; call in flight before / racing with (no ordering: every interleaving incl. the check-then-register window) / started after the failure; write side healthy or failing; all schedules",
 "assumptions": ["transport honours its context (Read returns on ctx.Done)", "callers have no deadline (a hang shows as a blocked goroutine at quiescence)"],
 "quick": c09, "thorough": c09,
}


CONC = dict(conc=True)
GEN_ASSUME = ["transports honour their context (a blocked Read/Write returns once its context is done)"]

# ---------------------------------------------------------------- C01
P["C01"] = {
 "title": "unary call returns exactly the handler's reply to exactly the caller's request",
 "bounds": "real ClientConn + real Server.Serve over the shipped channel transport (by reference), through a Demux keyed by source, through a Proxy, and over a serialising (Marshal/Unmarshal) transport; one call whose request write is stuck in a congested link while another call runs to completion (H_C05_blocked_write); N concurrent callers (1..2) with symbolic 32-bit payloads incl. 0 (empty body); all interleavings of callers, mux read loop, server read loop, 8 workers (symmetry-reduced), writer",
 "assumptions": GEN_ASSUME + ["codec model for testproto.Msg (injective; zero value <-> empty body); payload sizes beyond the 4-byte value are outside"],
 "quick": [job("H_C01_direct", conc=True, reach=["quiescent"], callers=1), job("H_C01_direct", conc=True, reach=["quiescent"], callers=2),
           job("H_C01_topo", conc=True, reach=["quiescent"], topo=1, callers=1), job("H_C01_topo", conc=True, reach=["quiescent"], topo=2, callers=1), job("H_C01_topo", conc=True, reach=["quiescent"], topo=3, callers=1),
           job("H_C01_topo", conc=True, reach=["quiescent"], topo=3, callers=2), job("H_C01_topo", conc=True, reach=["quiescent"], topo=1, callers=2),
           dict(job("H_C01_direct", conc=True, callers=2), race=True), job("H_C05_blocked_write", conc=True, reach=["checked"]), dict(job("H_C19_ws_write_conc", conc=True, reach=["checked"]), env=True, race=True)],
 "thorough": [job("H_C05_blocked_write", conc=True, reach=["checked"]), job("H_C01_direct", conc=True, reach=["quiescent"], callers=1), job("H_C01_direct", conc=True, reach=["quiescent"], callers=2),
              job("H_C01_direct", conc=True, reach=["quiescent"], callers=2, tcap=1),
              job("H_C01_topo", conc=True, reach=["quiescent"], topo=1, callers=2), job("H_C01_topo", conc=True, reach=["quiescent"], topo=2, callers=2), job("H_C01_topo", conc=True, reach=["quiescent"], topo=3, callers=2),
              dict(job("H_C01_direct", conc=True, callers=2), race=True)],
}

# ---------------------------------------------------------------- C02
def c02(cp, hp, msgs, **kw):
    return job("H_C02_stream", conc=True, reach=["checked"], cp=cp, hp=hp, msgs=msgs, **kw)
P["C02"] = {
 "title": "streams deliver every message once, in order, then the correct end-of-stream",
 "bounds": "one bidirectional stream, real client and server over the channel transport; client programs {send-all-then-receive, ping-pong, separate sender/receiver goroutines, half-close first} x handler programs {echo, burst, reply-after-EOF, return-before-EOF}; msgs <= 1 (quick) / 2 (thorough); symbolic payloads; all interleavings",
 "assumptions": GEN_ASSUME + ["programs in which one side sends without reading use a transport queue (tcap) that accepts their writes: back-pressure deadlocks between application programs are outside the property"],
 "quick": [c02(0,0,1), c02(1,0,1), c02(2,0,1), c02(3,0,1), c02(0,2,1), c02(0,3,1), c02(3,1,1,tcap=2), c02(0,1,1,tcap=3),
           job("H_C05_concurrent_ids", conc=True, reach=["checked"], n=0, streams=2), job("H_C05_merge", conc=True, reach=["checked"], bodies=2),
           job("H_C03_stream", conc=True, ek=10, nd=1, pos=1, sending=0, tcap=2), job("H_C03_stream", conc=True, ek=1, nd=1, pos=1, sending=0, tcap=2, ic=1)],  # EOF exactly when the handler returned success: odd error values, interceptors installed
 "thorough": [job("H_C03_stream", conc=True, ek=10, nd=1, pos=1, sending=0, tcap=2), job("H_C03_stream", conc=True, ek=1, nd=1, pos=1, sending=0, tcap=2, ic=1), c02(0,0,1), c02(1,0,1), c02(2,0,1), c02(3,0,1), c02(0,2,1), c02(0,3,1), c02(3,1,1,tcap=2), c02(0,1,1,tcap=3),
              c02(0,0,2), c02(1,0,2), c02(0,2,2), c02(0,3,2), c02(3,1,2,tcap=3)],
}

# ---------------------------------------------------------------- C03
c03q = [job("H_C03_unary", conc=True, ek=ek, nd=2) for ek in range(0, 10)] + [job("H_C03_unary", conc=True, reach=["ok"], ek=0, nd=0, zero=1)] + [job("H_C13_seq", conc=True, reach=["checked"], L=1, mode=2, stats=0, first=f) for f in (9, 12)] + \
       [job("H_C03_stream", conc=True, ek=ek, nd=1, pos=pos, sending=0, tcap=2) for ek in (8, 9) for pos in (0, 1)] + \
       [job("H_C03_stream", conc=True, ek=ek, nd=1, pos=pos, sending=0, tcap=2) for ek in (0, 1, 3, 4, 6) for pos in (0, 1)] + \
       [job("H_C03_stream", conc=True, ek=1, nd=1, pos=0, sending=1, tcap=2)] + \
       [job("H_C03_unary", conc=True, reach=["error"], ek=10, nd=0), job("H_C03_stream", conc=True, ek=10, nd=1, pos=0, sending=0, tcap=2), job("H_C03_stream", conc=True, ek=10, nd=1, pos=1, sending=0, tcap=2)] + \
       [job("H_C03_unary", conc=True, ek=ek, nd=1, ic=ic) for ek in (0, 1) for ic in (1, 2)] + [job("H_C03_stream", conc=True, ek=ek, nd=1, pos=pos, sending=0, tcap=2, ic=ic) for ek in (0, 1) for pos in (0, 1) for ic in (1, 2)] + \
       [job("H_C07_cancel", conc=True, hmode=2, cprog=0, m=1, fault=0, tcap=1)]  # no success reported after the caller abandoned a failing stream
P["C03"] = {
 "title": "the status a handler finishes with is the status the caller observes",
 "bounds": "handler result from {nil, status error with symbolic code 1..16 and symbolic 2-byte message (any bytes), the same wrapped by fmt.Errorf(%w) / pkg/errors.Wrap, plain error with symbolic text, context.Canceled, context.DeadlineExceeded, status with 1..2 details, an error whose gRPC status says OK}; with no / one / two chained pass-through server interceptors; unary end to end; bidi stream with the error before any message / after one exchange, caller idle or still sending (reset vs trailer ordering); all interleavings",
 "assumptions": GEN_ASSUME + ["status conversion is grpc's own code executed from SSA (status.FromError/FromContextError/FromProto); proto.Clone modelled as deep copy"],
 "quick": c03q,
 "thorough": c03q + [job("H_C03_stream", conc=True, ek=ek, nd=1, pos=1, sending=1, tcap=2) for ek in (1, 3)] + [job("H_C03_stream", conc=True, ek=3, nd=1, pos=0, sending=1, tcap=2)],
}

# ---------------------------------------------------------------- C04
P["C04"] = {
 "title": "request metadata, response headers and trailers arrive intact",
 "bounds": "ToMetadata(ToKeyValue(md)) for K keys (text and -bin, every letter case), 1..V values per key, every value of length 0..vlen over all 256 byte values, all map iteration orders; repeated-MD join; header emission modes (SetHeader+first message, SendHeader, with trailer; handler ok / error) end to end (H_C04_stream_md); unary response headers and trailers on the wire for SetHeader/SendHeader/SetTrailer in three orders, handler ok / error (H_C04_unary_md); request metadata (upper-case key, two values, one -bin value of 2 arbitrary bytes) end to end for one unary and one streaming call (H_C08_e2e, md=1); SendHeader concurrent with a send from a second goroutine of the handler, every interleaving (H_C04_stream_md mode=5)",
 "assumptions": ["encoding/base64 executed from its own SSA (tables as SMT arrays)", "keys are ASCII letters and '-' (gRPC key alphabet)"],
 "quick": [job("H_C04_roundtrip", reach=["checked"], K=2, V=2, vlen=2), job("H_C04_roundtrip", reach=["checked"], K=1, V=1, vlen=3, allbin=1), job("H_C04_join", reach=["checked"]),
           job("H_C04_request_md", reach=["checked"], deadline=0), job("H_C04_request_md", reach=["checked"], deadline=1)] +
          [job("H_C04_stream_md", conc=True, reach=["checked"], mode=m, herr=h) for m in (0, 1, 2) for h in (0, 1)] + [job("H_C04_stream_md", conc=True, reach=["checked"], mode=m, herr=0) for m in (3, 4, 5)] + [job("H_C04_unary_md", conc=True, reach=["checked"], mode=m) for m in (0, 1, 2, 3)] + [c08e(0, 0, 1), c08e(1, 0, 1)],
 "thorough": [c08e(0, 0, 1), c08e(1, 0, 1), c08e(0, 1, 1)] + [job("H_C04_unary_md", conc=True, reach=["checked"], mode=m) for m in (0, 1, 2, 3)] + [job("H_C04_stream_md", conc=True, reach=["checked"], mode=m, herr=0) for m in (3, 4, 5)] + [job("H_C04_stream_md", conc=True, reach=["checked"], mode=m, herr=h) for m in (0, 1, 2) for h in (0, 1)] + [job("H_C04_request_md", reach=["checked"], deadline=0), job("H_C04_request_md", reach=["checked"], deadline=1), job("H_C04_roundtrip", reach=["checked"], K=2, V=2, vlen=2), job("H_C04_roundtrip", reach=["checked"], K=1, V=1, vlen=3, allbin=1),
              job("H_C04_roundtrip", reach=["checked"], K=3, V=1, vlen=3), job("H_C04_roundtrip", reach=["checked"], K=2, V=1, vlen=3, allbin=1), job("H_C04_join", reach=["checked"])],
}

# ---------------------------------------------------------------- C05
P["C05"] = {
 "title": "multiplexed calls are isolated: unique ids, envelopes reach only their owner",
 "bounds": "inductive id step from an arbitrary 64-bit counter (any history shorter than 2^64); dispatch from a registry of two symbolic distinct ids with a symbolic envelope id; n concurrently starting callers (2 quick / 3 thorough), all interleavings; two concurrent calls (stream + unary) with every merge of their response sequences (stream bodies <= 2 / 3)",
 "assumptions": GEN_ASSUME,
 "quick": [job("H_C05_ids", conc=True, reach=["checked"], soft=["counter-inspected"]), job("H_C05_failed_write", conc=True, reach=["checked"]), job("H_C05_blocked_write", conc=True, reach=["checked"]), job("H_C06_wire", conc=True, reach=["checked"], kind=1, cp=0, hp=3, msgs=2, zero=1, tcap=2), job("H_C05_dispatch", reach=["to-a", "to-b", "dropped"]), job("H_C05_concurrent_ids", conc=True, reach=["checked"], n=2),
           job("H_C05_concurrent_ids", conc=True, reach=["checked"], n=3), job("H_C05_merge", conc=True, reach=["checked"], bodies=2),
           job("H_C05_concurrent_ids", conc=True, reach=["checked"], n=1, streams=1), job("H_C05_concurrent_ids", conc=True, reach=["checked"], n=2, streams=1),
           job("H_C02_stream", conc=True, reach=["checked"], cp=0, hp=0, msgs=1), job("H_C01_direct", conc=True, reach=["quiescent"], callers=2),
           job("H_C11_server_abandon", conc=True, reach=["checked"], n=3, k=1),
           dict(job("H_C05_concurrent_ids", conc=True, n=1, streams=1), race=True), dict(job("H_C05_concurrent_ids", conc=True, n=2, streams=0), race=True)],
 "thorough": [job("H_C05_ids", conc=True, reach=["checked"], soft=["counter-inspected"]), job("H_C05_failed_write", conc=True, reach=["checked"]), job("H_C05_blocked_write", conc=True, reach=["checked"]), job("H_C06_wire", conc=True, reach=["checked"], kind=1, cp=0, hp=3, msgs=2, zero=1, tcap=2), job("H_C05_dispatch", reach=["to-a", "to-b", "dropped"]), job("H_C05_concurrent_ids", conc=True, reach=["checked"], n=3),
           job("H_C05_merge", conc=True, reach=["checked"], bodies=3), job("H_C01_direct", conc=True, reach=["quiescent"], callers=2),
           job("H_C05_concurrent_ids", conc=True, reach=["checked"], n=2, streams=2),
           dict(job("H_C05_concurrent_ids", conc=True, n=2, streams=1), race=True)],
}

# ---------------------------------------------------------------- C06
def c06(**kw): return job("H_C06_wire", conc=True, reach=["checked"], **kw)
c06q = [job("H_C06_server_stream", conc=True, reach=["checked"], sendheader=e) for e in (0, 1)] + [job("H_C12_seq", conc=True, reach=["checked"], L=2, first=6, second=5), job("H_C12_seq", conc=True, reach=["checked"], L=2, first=8, second=5)] + [c06(kind=1, cp=0, hp=0, msgs=1, herr=h, tcap=1) for h in (2, 3, 4)] + [c06(kind=0, herr=0, hdrmode=1), c06(kind=0, herr=1), c06(kind=1, cp=0, hp=0, msgs=1, hdrmode=1), c06(kind=1, cp=0, hp=0, msgs=1, hdrmode=2),
        c06(kind=1, cp=2, hp=1, msgs=1, herr=1, hdrmode=3), c06(kind=1, cp=0, hp=3, msgs=2), c06(kind=1, cp=2, hp=0, msgs=1, cancel=1, tcap=1), c06(kind=0, cancel=1),
        c06(kind=1, cp=0, hp=0, msgs=1, wfail=2, tcap=1), c06(kind=1, cp=0, hp=0, msgs=1, badmsg=1, tcap=1),
        c06(kind=1, cp=0, hp=3, msgs=2, zero=1, tcap=2), c06(kind=1, cp=0, hp=0, msgs=1, zero=1)]
P["C06"] = {
 "title": "every emitted envelope sequence conforms to the documented wire protocol",
 "bounds": "complete wire history (taps on both directions) of one RPC per scenario, checked by the protocol automaton at every quiescent state: unary ok/error/cancel; bidi streams over the C02 program families with header modes {none, SetHeader+first message, SendHeader, SetTrailer}, handler errors, early handler return (reset path) and caller cancellation at an arbitrary point; msgs <= 2; all interleavings; error replies to a unary request / stream open with undecodable metadata keep the response direction (H_C12_seq first=6,8)",
 "assumptions": GEN_ASSUME,
 "quick": c06q,
 "thorough": c06q + [c06(kind=1, cp=2, hp=1, msgs=2, hdrmode=1, cancel=1, tcap=1), c06(kind=1, cp=1, hp=0, msgs=1, cancel=1, tcap=1), c06(kind=1, cp=0, hp=2, msgs=2, herr=1), c06(kind=1, cp=0, hp=0, msgs=2, hdrmode=1)],
}

# ---------------------------------------------------------------- C07
def c07(**kw): return job("H_C07_cancel", conc=True, **kw)
c07q = [c07(hmode=0, cprog=2, fault=0, tcap=1), c07(hmode=1, cprog=0, fault=0, tcap=1), c07(hmode=0, cprog=1, fault=0, tcap=1), c07(hmode=1, cprog=2, fault=0, tcap=1), c07(hmode=1, cprog=0, fault=1, tcap=1),
        c07(hmode=2, cprog=0, m=1, fault=0, tcap=1)] + [job("H_C11_client_cancel_unread", conc=True, reach=["checked"], m=m) for m in (0, 2, 3)] + [job("H_C11_client_cancel_unread", conc=True, reach=["checked"], m=3, sender=1)]
P["C07"] = {
 "title": "cancelling a streaming call cancels its handler and fails the caller's calls",
 "bounds": "one bidi stream; cancellation by a racing goroutine (lands at every point of every other goroutine's operation sequence) or deadline expiry (may fire at any scheduling point); handler blocked in RecvMsg / on its context / after queuing m responses (m <= 1 quick, 2 thorough); caller receiving / sending then receiving / half-closed; (an unrelated unary call active on the same connection during the cancellation - H_C07_cancel other=1 - did not finish within 1100 s / 3 M paths and is outside; the probe calls of H_C11_client_cancel_unread cover a call started after the cancellation); all interleavings",
 "assumptions": GEN_ASSUME + ["deadline expiry is modelled for the caller's context only"],
 "quick": c07q,
 "thorough": c07q + [c07(hmode=2, cprog=0, m=2, fault=0, tcap=1), c07(hmode=2, cprog=0, m=3, fault=0, tcap=1),
              job("H_C11_client_cancel_unread", conc=True, reach=["checked"], m=5)],
}

# ---------------------------------------------------------------- C10
def c10(**kw): return job("H_C10_end", conc=True, reach=["checked"], **kw)
c10q = [c10(u=1, s=0, fault=f) for f in (0, 1, 2)] + [c10(u=1, s=0, fault=f, tmo=1) for f in (0, 1, 2)] + [c10(u=0, s=1, fault=f, hmode=h) for f in (0, 2) for h in (0, 1, 2)] + [c10(u=0, s=1, fault=1, hmode=2), c10(u=1, s=1, fault=0, hmode=0)] + [c10(u=0, s=1, fault=f, hmode=1, rst=1) for f in (0, 2)] + [c10(u=1, s=0, fault=f, orphan=2) for f in (0, 1, 2)] + [c10(u=0, s=2, fault=f, hmode=h) for f, h in ((0, 0), (0, 1), (2, 1))]
P["C10"] = {
 "title": "server connections end cleanly: Serve returns, handlers cancelled, no leaks",
 "bounds": "u unary + s streaming cooperative handlers in flight (u <= 1, s <= 2 quick; thorough up to (2,1),(1,2)); fault = read error / write error / Server.Stop, racing with the request script and the handlers (every position); streaming handlers blocked in RecvMsg, on their context, or sending; optionally two stray bodies for never-opened streams first (each refused with a reset of the server's own); all interleavings; goroutine census at quiescence; the unary call optionally carries its own 1 h timeout (tmo=1)",
 "assumptions": GEN_ASSUME + ["handlers are cooperative: they return once their context is done"],
 "quick": c10q,
 "thorough": c10q + [c10(u=1, s=1, fault=2, hmode=2), c10(u=2, s=0, fault=0), c10(u=2, s=0, fault=2), c10(u=0, s=2, fault=0, hmode=0)],
}

# ---------------------------------------------------------------- C11
c11q = [job("H_C11_server_abandon", conc=True, reach=["checked"], n=n, k=k) for n, k in ((2, 0), (3, 0), (3, 1), (3, 2))] + \
       [job("H_C11_client_extra", conc=True, reach=["probe-ok"], mode=m, extra=x) for m in (0, 1) for x in (2, 3)] + \
       [job("H_C11_client_cancel_unread", conc=True, reach=["checked"], m=m) for m in (1, 3, 4)] + [job("H_C11_client_cancel_unread", conc=True, reach=["checked"], m=m, sender=1) for m in (2, 3)] + [job("H_C11_failed_open", conc=True, reach=["checked"], m=m) for m in (1, 2, 3)] + [job("H_C11_failed_open_cc", conc=True, reach=["checked"], m=m) for m in (2, 3)]
P["C11"] = {
 "title": "an abandoned stream never wedges its connection",
 "bounds": "server side: a handler returns after k of n client messages (n <= 3 quick / 5 thorough, all k < n), the peer keeps sending the rest and the trailer, then a probe unary request must be served; client side: a stream whose opening write is reported as failed after the peer has answered 1..3 times (multiplexer level and through ClientConn/Server); a caller cancels a stream with m <= 4 responses unread, optionally with a SendMsg in progress on a congested link; a finished stream or unary call receives 2..3 (thorough 4) further envelopes for its id, then a probe call must get its own reply; probes have no deadline (a wedge shows as a blocked goroutine); all interleavings",
 "assumptions": GEN_ASSUME,
 "quick": c11q,
 "thorough": c11q + [job("H_C11_server_abandon", conc=True, reach=["checked"], n=5, k=k) for k in (0, 2, 4)] + [job("H_C11_client_extra", conc=True, reach=["probe-ok"], mode=m, extra=4) for m in (0, 1)],
}

# ---------------------------------------------------------------- C12
P["C12"] = {
 "title": "no envelope sequence from a peer can crash or stall a server",
 "bounds": "every sequence of L envelopes over 17 shapes x 2 stream ids (empty-bodied message, unary request and stream open with a malformed grpc-timeout value, header absent, unparsable method, unknown service, unknown method, foreign destination, valid unary, unary with undecodable -bin metadata, stream open, open with bad metadata, body, trailer, RST_STREAM, reset of another type, body for a foreign destination), L = 2 (quick); thorough adds L = 3: first envelope one of the 10 shapes the server refuses without starting a handler, the other two over a 9-shape sub-alphabet; first envelope a stream open, the other two over {valid unary, open, body, reset} (a valid unary request first did not finish in 900 s) (the full 17^3 did not finish within the per-job budget and is outside); each followed by a valid probe request and a clean end; all interleavings",
 "assumptions": GEN_ASSUME,
 "quick": [job("H_C12_seq", conc=True, reach=["checked"], L=2, first=f) for f in range(17) if f not in (5, 15)] +
          [job("H_C12_seq", conc=True, reach=["checked"], L=2, first=f, second=s2) for f in (5, 15) for s2 in range(17)] +  # the two expensive first shapes, split by the second envelope
          [job("H_C12_seq", conc=True, reach=["checked"], L=3, first=7, second=9, third=9, oneid=1, lazy=1), job("H_C12_seq", conc=True, reach=["checked"], L=4, first=7, second=9, third=9, oneid=1, lazy=1),
           ] + [job("H_C12_seq", conc=True, reach=["checked"], L=2, first=7, second=s2, lazy=1) for s2 in range(17)] +
          [dict(job("H_C12_seq", conc=True, L=2, first=7, second=7, lazy=z), race=True) for z in (0, 1)] +  # two streams opening / finishing concurrently, with the race detector: a racing map access is a process crash in Go
          [job("H_C12_method", reach=["parsed", "error"], n=n) for n in (2, 3, 5)] + [job("H_C12_method", reach=["error"], n=0), job("H_C12_method", reach=["error"], n=1), job("H_selftest_lib", reach=["checked"])],
 "thorough": [job("H_C12_seq", conc=True, reach=["checked"], L=2, first=f) for f in range(17) if f not in (5, 15)] + [job("H_C12_seq", conc=True, reach=["checked"], L=2, first=f, second=s2) for f in (5, 15) for s2 in range(17)] + [job("H_C12_seq", conc=True, reach=["checked"], L=3, first=f, alpha=1) for f in (0, 1, 2, 3, 4, 8, 10, 11, 12, 13)] + [job("H_C12_seq", conc=True, reach=["checked"], L=3, first=7, alpha=2)] +
          [job("H_C12_seq", conc=True, reach=["checked"], L=3, first=7, second=9, lazy=1), job("H_C12_seq", conc=True, reach=["checked"], L=4, first=7, second=9, third=9, oneid=1, lazy=1)],
}

# ---------------------------------------------------------------- C13
P["C13"] = {
 "title": "no envelope sequence from a peer can crash a client or leave a call hanging",
 "bounds": "two outstanding calls (unary+unary, unary+stream, stream+stream), with and without a stats handler; every sequence of L response envelopes over 13 shapes addressed to call 1, call 2 or an unknown id, then the connection closes (and, H_C11_client_cancel_unread: m bodies that nobody receives followed by the caller's cancellation); L = 1..2 (quick), 3 for unary+unary (thorough); all interleavings; the connection's end reported as io.EOF (eof=1) for one unary / one streaming call",
 "assumptions": GEN_ASSUME,
 "quick": [job("H_C13_seq", conc=True, reach=["checked"], L=1, mode=m, stats=s) for m in (0, 1, 2) for s in (0, 1)] +
          [job("H_C13_seq", conc=True, reach=["checked"], L=2, mode=0, stats=1, first=f) for f in range(13)] + [job("H_C13_seq", conc=True, reach=["checked"], L=1, mode=2, stats=0, first=f) for f in (9, 12)] +
          [job("H_C13_seq", conc=True, reach=["checked"], L=3, mode=m, stats=0, preset=1) for m in (0, 1)] +
          [job("H_C13_seq", conc=True, reach=["checked"], L=1, mode=m, stats=0, eof=1) for m in (0, 1, 2)] +
          [job("H_C11_client_cancel_unread", conc=True, reach=["checked"], m=m) for m in (1, 3)],  # bodies nobody receives, then the caller gives up: the call must still end
 "thorough": [job("H_C11_client_cancel_unread", conc=True, reach=["checked"], m=m) for m in (1, 3)] + [job("H_C13_seq", conc=True, reach=["checked"], L=4, mode=0, stats=0, preset=1)] + [job("H_C13_seq", conc=True, reach=["checked"], L=1, mode=m, stats=0, eof=1) for m in (0, 1, 2)] + [job("H_C13_seq", conc=True, reach=["checked"], L=1, mode=m, stats=s) for m in (0, 1, 2) for s in (0, 1)] +
          [job("H_C13_seq", conc=True, reach=["checked"], L=2, mode=m, stats=1, first=f) for f in range(13) for m in (0, 1)] +
          [job("H_C13_seq", conc=True, reach=["checked"], L=3, mode=0, stats=0, first=f, second=s2) for f in range(13) for s2 in range(13)],  # split by the first two shapes: 169 jobs of 1-3 min
}

# ---------------------------------------------------------------- C14
def c14(**kw): return job("H_C14_release", conc=True, reach=["checked"], soft=(None if kw.get("outcome") == 7 else ["registries-inspected"]), **kw)
c14q = [c14(outcome=o, pre=p, tcap=2) for o in (0, 1, 2, 3, 5, 6, 7) for p in (0, 1)] + [c14(outcome=8, pre=0, tcap=2)] + [c14(outcome=4, pre=0, tcap=1)] + \
       [job("H_C11_server_abandon", conc=True, reach=["checked"], n=3, k=1)]  # a handler that returns with messages unconsumed must still be released
P["C14"] = {
 "title": "finishing an RPC releases everything held for it; state stays bounded",
 "bounds": "inductive step: one complete RPC (unary ok / handler error / transport write failure; stream ok / handler error / caller cancel at any point / failed open; unary call with metadata that ends by its deadline, both the caller's and the server-side deadline free to expire at any point) on a real client+server pair, with and without another stream registered before; afterwards both registries have their previous size and the goroutine census is back at the idle level - so histories of any length follow by induction over idle-compatible states; all interleavings",
 "assumptions": GEN_ASSUME + ["memory retained inside grpc/protobuf objects is outside"],
 "quick": c14q,
 "thorough": c14q + [c14(outcome=4, pre=1, tcap=1), c14(outcome=4, pre=0, tcap=2)],
}

# ---------------------------------------------------------------- C16
c16q = [job("H_C16_forward", reach=["forwarded"], peers=p, ic=ic, next=nx, rec=rc, fill=fl) for p in (2, 3) for ic in (0, 1) for nx in (-1, 0, 1, 2) for rc in (0, 2) for fl in (0, 15)] + \
       [job("H_C16_forward", reach=["rejected"], peers=2, ic=2), job("H_C16_forward", peers=2, ic=0, fill=16)] + \
       [job("H_C17_conc", conc=True, reach=["checked"], scenario=2, n=3), job("H_C17_conc", conc=True, reach=["checked"], scenario=1, n=1), job("H_C17_conc", conc=True, reach=["checked"], scenario=5)] + \
       [job("H_C16_e2e", conc=True, reach=["forwarded", "dialled"], peers=p, ic=ic, next=nx, rec=rc, n=n) for (p, ic, nx, rc, n) in ((2, 0, 0, 0, 2), (3, 1, 2, 2, 2), (2, 0, -1, 0, 2), (3, 0, 1, 2, 1), (2, 1, 0, 0, 1))] + \
       [job("H_C16_e2e", conc=True, reach=["rejected"], peers=2, ic=2, n=1)] + \
       [job("H_C16_burst", conc=True, reach=["checked"], n=n) for n in (5, 19)]
c16t = c16q + [job("H_C16_burst", conc=True, reach=["checked"], n=22)] + [job("H_C16_e2e", conc=True, reach=["forwarded", "dialled"], peers=3, ic=ic, next=nx, rec=2, n=3) for ic in (0, 1) for nx in (0, 1, 2)]
P["C16"] = {
 "title": "a proxy delivers each accepted envelope once, in order, to the right peer",
 "bounds": "one forwarding step from a proxy state with 2..3 attached peers and symbolic queue fill 0/15/16 of 16, for an accepted envelope with symbolic destination / interceptor rewrite / return route of 0..2 hops (nil and empty) / route record of 0..2 entries, symbolic id and payload; per-pair ordering with a stuck third peer (3 envelopes, all interleavings); through the exported API only (H_C16_e2e): a running proxy with 2..3 attached peers, 1..2 (thorough 3) envelopes from one peer to a symbolic destination incl. dial-on-demand that succeeds, every schedule; a burst of 5 / 19 (thorough 22) envelopes to a peer that accepts nothing until the burst is over: order and at-most-once of what arrives",
 "assumptions": GEN_ASSUME + ["end-to-end RPCs through a proxy (client - proxy - Demux - Serve) are not part of the registered bound"],
 "quick": c16q, "thorough": c16t,
}

# ---------------------------------------------------------------- C17
c17q = [job("H_C17_reject", reach=["rejected"], kind=k) for k in (0, 1, 2)] + [job("H_C17_reject", kind=k, unnamed=1) for k in (0, 1, 2)] + [job("H_C17_conc", conc=True, reach=["checked"], scenario=s, n=n) for s, n in ((0, 1), (1, 1), (2, 2), (3, 1), (4, 2), (5, 1), (6, 1))] + \
       [job("H_C17_reject_e2e", conc=True, reach=["rejected"], kind=k) for k in (0, 1, 2)] + [job("H_C17_reject_e2e", conc=True, kind=k, unnamed=1) for k in (0, 1, 2)]
P["C17"] = {
 "title": "a proxy rejects spoofed sources, isolates bad peers and shuts down cleanly",
 "bounds": "forwardRpc for a missing header / every 2-byte claimed source / empty source, as one step and through a running proxy (exported API only) followed by an honest envelope; scenarios under all interleavings: context cancelled at any point during traffic (goroutine census), re-attachment under the same name racing with the old connection's failure, stuck writer, failing reader, unreachable destination (dial error); <= 2 envelopes per pair (thorough 3)",
 "assumptions": GEN_ASSUME,
 "quick": c17q,
 "thorough": c17q + [job("H_C17_conc", conc=True, reach=["checked"], scenario=0, n=2), job("H_C17_conc", conc=True, reach=["checked"], scenario=2, n=3)],
}

# ---------------------------------------------------------------- C18
def c18(**kw): return job("H_C18_demux", conc=True, reach=["checked"], **kw)
c18q = [c18(K=2, L=3, W=1), c18(K=2, L=2, W=1, cancelKey=1), c18(K=2, L=2, W=1, stop=1), c18(K=1, L=2, W=0, stop=1, slow=1), c18(K=2, L=2, W=1, cancelKey=1, stop=1), job("H_C18_cancel_pending", conc=True, reach=["checked"]), job("H_C18_cancel_parked_write", conc=True, reach=["checked"]), job("H_C18_read_cancelled", conc=True, reach=["checked"]), job("H_C18_reuse_after_cancel", conc=True, reach=["checked"], twice=0), job("H_C18_reuse_after_cancel", conc=True, reach=["checked"], twice=1)]
P["C18"] = {
 "title": "a demultiplexer gives each key its own ordered connection and shares the writer",
 "bounds": "L envelopes (3 quick / 4 thorough) over K keys (2 / 3) in every key assignment, consumers per logical connection reading and writing W envelopes each; Cancel(key) and Stop() at any point, concurrent with the run loop, readers and writers; slow consumers; all interleavings",
 "assumptions": GEN_ASSUME,
 "quick": c18q,
 "thorough": c18q + [c18(K=3, L=4, W=1), c18(K=2, L=3, W=2), c18(K=2, L=3, W=1, cancelKey=1)],
}

# ---------------------------------------------------------------- C19
c19q = [dict(job("H_C19_ws_read", reach=["valid", "rejected"]), env=True), dict(job("H_C19_ws_write", reach=["checked"]), env=True), dict(job("H_C19_ws_write", reach=["checked"], zero=1), env=True), dict(job("H_C19_http_ack", conc=True, reach=["checked"]), env=True), dict(job("H_C19_http_idle_stamped", conc=True, reach=["checked"]), env=True), dict(job("H_C19_ws_write_conc", conc=True, reach=["checked"]), env=True, race=True), job("H_C19_channel", conc=True, reach=["checked"]),
        job("H_C19_http_serve", conc=True, reach=["valid", "rejected"]), job("H_C19_http_idle", conc=True, reach=["checked"], reader=0), job("H_C19_http_idle", conc=True, reach=["checked"], reader=1),
        dict(job("H_C19_http_idle", conc=True, reader=1), race=True), dict(job("H_C19_http_serve", conc=True), race=True)]
P["C19"] = {
 "title": "shipped transports carry every envelope unchanged and reject what is not one",
 "bounds": "goat's glue around each transport: WebSocket Read over {library error, text frame, undecodable bytes, valid binary} and Write; channel transport FIFO for 3 envelopes and cancellation of a blocked Read and Write; HTTP ServeHTTP over 7 request shapes; HTTP delivery vs reader vs idle-timeout tick vs context cancellation in every order; HTTP: a connection that carried traffic, 30 s of silence against a 10 s timeout, reader blocked (H_C19_http_idle_stamped)",
 "assumptions": ["the WebSocket library, net/http and the protobuf wire format are environment stubs: proto.Marshal/Unmarshal are inverse up to protobuf's normalisation (wire tokens), raw bytes are undecodable; 'equal to what was written' is therefore decided for goat's glue, not for protobuf or the network stacks"],
 "quick": c19q, "thorough": c19q,
}

# ---------------------------------------------------------------- C20
c20q = [job("H_C20_unary_chain", reach=["checked"], n=n) for n in (1, 2, 3, 4)] + [job("H_C20_unary_chain", reach=["checked"], n=3, short=s) for s in (0, 1, 2)] + \
       [job("H_C20_stream_chain", reach=["checked"], n=n) for n in (1, 2, 3, 4)] + \
       [job("H_C20_stats_e2e", conc=True, reach=["checked"], H=h, kind=k, outcome=o) for h in (1, 2) for k in (0, 1) for o in (0, 1)] + \
       [job("H_C20_stats_e2e", conc=True, reach=["checked"], H=1, kind=1, outcome=o, late=1) for o in (0, 1)] + \
       [job("H_C04_stream_md", conc=True, reach=["checked"], mode=0, herr=h) for h in (0, 1)] + \
       [job("H_C20_stats_failures", conc=True, reach=["checked"], H=2, outcome=o) for o in (0, 1, 2, 3, 4, 5)]
P["C20"] = {
 "title": "interceptors and stats handlers see every RPC exactly once, in order",
 "bounds": "chains of n recording interceptors (1..4 quick, ..6 thorough) with symbolic request/reply rewrites, optionally short-circuiting, driven through the real processUnaryRpc and generated handler / the real chained stream interceptor; H = 1..2 (3 thorough) recording stats handlers on each side, unary and bidi RPC, ok and handler error, end to end with Begin/End pairing, tag propagation and ConnBegin/ConnEnd",
 "assumptions": GEN_ASSUME,
 "quick": c20q,
 "thorough": c20q + [job("H_C20_unary_chain", reach=["checked"], n=n) for n in (5, 6)] + [job("H_C20_stream_chain", reach=["checked"], n=6)] +
             [job("H_C20_stats_e2e", conc=True, reach=["checked"], H=3, kind=k, outcome=o) for k in (0, 1) for o in (0, 1)],
}

# ---------------------------------------------------------------- C15 (race mode)
def race(j):
    j = dict(j); j["race"] = True; j["conc"] = True; return j
def twin(j):
    j = dict(j); j["twin"] = True; j.pop("required_reach", None); return j
c15_self = [race(job("H_selftest_sync", reach=["checked"], mode=0)), twin(race(job("H_selftest_sync", mode=1))), twin(race(job("H_selftest_sync", mode=3)))]
c15q = [race(job("H_C01_direct", callers=2)), race(job("H_C02_stream", cp=2, hp=0, msgs=1)), race(job("H_C02_stream", cp=0, hp=3, msgs=1)),
        race(job("H_C09_fail", kind=1, timing=1, prefix=0, wfail=0)), race(job("H_C09_fail", kind=0, timing=1, prefix=0, wfail=1)),
        race(job("H_C10_end", u=1, s=1, fault=2, hmode=0)), race(job("H_C07_cancel", hmode=1, cprog=0, fault=0, tcap=1)),
        race(job("H_C11_server_abandon", n=3, k=1)), race(job("H_C11_client_extra", mode=0, extra=2)),
        race(job("H_C17_conc", scenario=1, n=1)), race(job("H_C17_conc", scenario=0, n=1)), race(job("H_C18_demux", K=2, L=2, W=1, cancelKey=1, stop=1)),
        race(job("H_C19_http_idle", reader=1)), race(job("H_C06_wire", kind=1, cp=0, hp=0, msgs=1, hdrmode=2)),
        race(job("H_C07_cancel", hmode=1, cprog=1, fault=0, tcap=1)), race(job("H_C05_concurrent_ids", n=1, streams=1)), race(job("H_C05_concurrent_ids", n=2, streams=0)),
        race(job("H_C11_client_cancel_unread", m=2)), race(job("H_C18_cancel_pending")), race(job("H_C20_stats_failures", H=1, outcome=2))]
P["C15"] = {
 "title": "API-permitted concurrent use is free of data races",
 "bounds": "happens-before (vector clock) race detection over every explored schedule of the listed scenarios of C01, C02, C06, C07, C09, C10, C11, C17, C18, C19 at their quick bounds; accesses checked: loads, stores and map operations executed by goat's own code",
 "assumptions": GEN_ASSUME + ["a channel or context carries one clock (may assume extra ordering: can hide a race, never invent one)", "state caching is applied without the clocks: a race that needs the happens-before history of a pruned path can be missed",
   "the synchronisation models themselves (Mutex, RWMutex, WaitGroup, Once, channels, atomics, context cancellation) are validated on every run by H_selftest_sync: the idioms the Go memory model orders raise nothing, and two twins (writers under RLock, reader without lock) must be reported", "races inside grpc/protobuf/stdlib and every concurrent use outside the listed scenarios are outside"],
 "quick": c15q + c15_self,
 "thorough": c15q + c15_self + [race(job("H_C12_seq", L=2, first=7)), race(job("H_C13_seq", L=1, mode=2, stats=1)), race(job("H_C14_release", outcome=2, pre=1, tcap=2)), race(job("H_C20_stats_e2e", H=2, kind=1, outcome=0))],
}

json.dump(P, open(os.path.join(here, "properties.json"), "w"), indent=1)
print("properties:", sorted(P))
