//go:build verif

package client

import (
	"context"

	goatorepo "github.com/avos-io/goat/gen/goatorepo"
)

// zzConn is the scripted transport of client-side harnesses: reads deliver what a
// peer goroutine feeds (or the injected error), writes are logged (or fail).
type zzConn struct {
	in          chan *goatorepo.Rpc
	rerr        chan error
	mu          vfMutex
	out         []*goatorepo.Rpc
	failWrite   error
	onWrite     func(*goatorepo.Rpc)
	wch         chan *goatorepo.Rpc // when non-nil, every written envelope is also queued here for the peer script
	congestData byte                // when non-zero: message bodies starting with this byte are not accepted either
	congested   bool                // message bodies of call 1 are not accepted: such a write waits for its context and fails with its error
}

func newZZConn() *zzConn {
	return &zzConn{in: make(chan *goatorepo.Rpc), rerr: make(chan error)}
}

func (c *zzConn) Read(ctx context.Context) (*goatorepo.Rpc, error) {
	select {
	case r := <-c.in:
		return r, nil
	case e := <-c.rerr:
		return nil, e
	case <-ctx.Done():
		return nil, ctx.Err()
	}
}

func (c *zzConn) Write(ctx context.Context, rpc *goatorepo.Rpc) error {
	if (c.congested && rpc.Id == 1 || c.congestData != 0 && rpc.Body != nil && len(rpc.Body.Data) > 0 && rpc.Body.Data[0] == c.congestData) && rpc.Body != nil && rpc.Trailer == nil && rpc.Status == nil {
		// a congested link (back-pressure): allowed transport behaviour, it honours its context
		<-ctx.Done()
		return ctx.Err()
	}
	c.mu.vfLock()
	defer c.mu.vfUnlock()
	if c.failWrite != nil {
		return c.failWrite
	}
	c.out = append(c.out, rpc)
	if c.onWrite != nil {
		c.onWrite(rpc)
	}
	if c.wch != nil {
		c.wch <- rpc
	}
	return nil
}

func zzHdr() *goatorepo.RequestHeader {
	return &goatorepo.RequestHeader{Method: "/s/m", Source: "c", Destination: "s"}
}

func zzRespHdr() *goatorepo.RequestHeader {
	return &goatorepo.RequestHeader{Method: "/s/m", Source: "s", Destination: "c"}
}
