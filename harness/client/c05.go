//go:build verif

package client

import (
	"context"
	"time"

	goatorepo "github.com/avos-io/goat/gen/goatorepo"
	"github.com/avos-io/goat/gen/testproto"
)

// H_C05_ids: from an arbitrary counter value c (histories of any length), two allocations
// (one stream, one unary) use distinct ids, both greater than c; the counter never moves back.
func H_C05_ids() {
	conn := newZZConn()
	conn.wch = make(chan *goatorepo.Rpc, 4)
	rm := NewRpcMultiplexer(conn)
	c := vfUint64("counter")
	vfAssume(c < 0xfffffffffffffff0)
	// the counter is reached by name; on a tree that stores it under another name the harness
	// falls back to the fresh multiplexer's own initial value (c = 0)
	hasCounter := vfFieldSetUint(rm, "streamCounter", c)
	if !hasCounter {
		vfAssume(c == 0)
	}
	id1, _, teardown, err := rm.NewStreamReadWriter(context.Background())
	vfAssert(err == nil, "stream-allocates")
	go func() {
		rm.CallUnaryMethod(context.Background(), zzHdr(), &goatorepo.Body{Data: []byte{1}}, nil)
	}()
	var id2 uint64
	seen := false
	go func() {
		w := <-conn.wch
		id2 = w.Id
		seen = true
		conn.in <- &goatorepo.Rpc{Id: w.Id, Header: zzRespHdr(), Body: &goatorepo.Body{Data: []byte{2}}, Trailer: &goatorepo.Trailer{}}
	}()
	vfAtQuiescence(func() {
		vfAssert(seen, "unary-request-written")
		vfAssert(id1 > c && id2 > c, "ids-above-the-previous-counter")
		vfAssert(id1 != id2, "ids-pairwise-distinct")
		if hasCounter {
			vfAssert(vfFieldGetUint(rm, "streamCounter") >= c+2, "counter-monotone")
			vfReach("counter-inspected")
		}
		teardown()
		vfReach("checked")
	})
}

// H_C05_concurrent_ids: n callers start concurrently; the ids on the wire are pairwise distinct.
func H_C05_concurrent_ids() {
	n := vfParam("n", 2)
	conn := newZZConn()
	rm := NewRpcMultiplexer(conn)
	streams := vfParam("streams", 0) // additionally: this many concurrently opened streams
	for i := 0; i < n; i++ {
		go func() {
			ctx, cancel := context.WithCancel(context.Background())
			cancel() // the call gives up right after writing: only id allocation matters here
			rm.CallUnaryMethod(ctx, zzHdr(), &goatorepo.Body{Data: []byte{1}}, nil)
		}()
	}
	for i := 0; i < streams; i++ {
		go func() {
			id, rw, teardown, err := rm.NewStreamReadWriter(context.Background())
			if err == nil {
				rw.Write(context.Background(), &goatorepo.Rpc{Id: id, Header: zzHdr()})
				teardown()
			}
		}()
	}
	n += streams
	vfAtQuiescence(func() {
		w := conn.out
		vfAssert(len(w) == n, "every-caller-wrote-its-request")
		for i := 0; i < len(w); i++ {
			for j := i + 1; j < len(w); j++ {
				vfAssert(w[i].Id != w[j].Id, "wire-ids-pairwise-distinct")
			}
		}
		vfReach("checked")
	})
}

// H_C05_merge: two concurrent calls (a stream with id 1 and a unary call with id 2); the
// peer emits their responses in an arbitrary merge (chosen symbolically); each call sees
// exactly its own sequence, in order.
func H_C05_merge() {
	nb := vfParam("bodies", 2)
	conn := newZZConn()
	conn.wch = make(chan *goatorepo.Rpc, 8)
	rm := NewRpcMultiplexer(conn)
	vals := make([]byte, nb)
	for i := range vals {
		vals[i] = vfByte("sv")
		vfAssume(vals[i] != 0)
	}
	uval := vfByte("uv")
	// the two response sequences
	var s1 []*goatorepo.Rpc
	for i := 0; i < nb; i++ {
		s1 = append(s1, &goatorepo.Rpc{Id: 1, Header: zzRespHdr(), Body: &goatorepo.Body{Data: []byte{8, vals[i], 0, 0, 0}}})
	}
	s1 = append(s1, &goatorepo.Rpc{Id: 1, Header: zzRespHdr(), Status: &goatorepo.ResponseStatus{Code: 0}, Trailer: &goatorepo.Trailer{}})
	s2 := []*goatorepo.Rpc{{Id: 2, Header: zzRespHdr(), Body: &goatorepo.Body{Data: []byte{uval}}, Trailer: &goatorepo.Trailer{}}}
	var got []int32
	var sErr error
	sDone, uDone := false, false
	var uBody *goatorepo.Body
	var uErr error
	started := make(chan struct{})
	go func() {
		id, rw, teardown, err := rm.NewStreamReadWriter(context.Background())
		vfAssert(err == nil && id == 1, "stream-is-id-1")
		cs := NewStream(context.Background(), id, "/s/m", rw, teardown, "c", "s", nil, time.Time{})
		close(started)
		for {
			out := new(testproto.Msg)
			if err := cs.RecvMsg(out); err != nil {
				sErr = err
				break
			}
			got = append(got, out.Value)
		}
		sDone = true
	}()
	go func() {
		<-started
		uBody, uErr = rm.CallUnaryMethod(context.Background(), zzHdr(), &goatorepo.Body{Data: []byte{7}}, nil)
		uDone = true
	}()
	go func() {
		<-conn.wch // the unary request (id 2) is registered and on the wire
		i, j := 0, 0
		for i < len(s1) || j < len(s2) {
			pick := 0
			if i < len(s1) && j < len(s2) {
				pick = vfChoice("merge", 2)
			} else if j < len(s2) {
				pick = 1
			}
			if pick == 0 {
				conn.in <- s1[i]
				i++
			} else {
				conn.in <- s2[j]
				j++
			}
		}
	}()
	vfAtQuiescence(func() {
		vfAssert(sDone && uDone, "both-calls-complete")
		if !sDone || !uDone {
			return
		}
		vfAssert(uErr == nil && uBody != nil && len(uBody.Data) == 1 && uBody.Data[0] == uval, "unary-call-sees-exactly-its-reply")
		vfAssert(len(got) == nb, "stream-sees-all-its-messages-and-no-others")
		for i := 0; i < nb && i < len(got); i++ {
			vfAssert(got[i] == int32(vals[i]), "stream-order-preserved")
		}
		vfAssert(sErr != nil && sErr.Error() == "EOF", "stream-ends-with-its-own-trailer")
		vfReach("checked")
	})
}

// H_C05_failed_write: call A's request cannot be written (congested link) and fails when A gives
// up; call B is in flight meanwhile; call C starts after A has failed. The ids of B and C on the
// wire differ, and each of them receives the reply to its own request (the peer echoes bodies).
func H_C05_failed_write() {
	conn := newZZConn()
	conn.wch = make(chan *goatorepo.Rpc, 8)
	conn.congestData = 65 // A's request body is not accepted by the link
	rm := NewRpcMultiplexer(conn)
	ctxA, cancelA := context.WithCancel(context.Background())
	aStarted := make(chan struct{})
	aDone := make(chan struct{})
	var aErr error
	var bBody, cBody *goatorepo.Body
	var bErr, cErr error
	bDone, cDone := false, false
	go func() {
		close(aStarted)
		_, aErr = rm.CallUnaryMethod(ctxA, zzHdr(), &goatorepo.Body{Data: []byte{65}}, nil)
		close(aDone)
	}()
	go func() { cancelA() }()
	go func() {
		<-aStarted
		bBody, bErr = rm.CallUnaryMethod(context.Background(), zzHdr(), &goatorepo.Body{Data: []byte{66}}, nil)
		bDone = true
	}()
	go func() {
		<-aDone
		cBody, cErr = rm.CallUnaryMethod(context.Background(), zzHdr(), &goatorepo.Body{Data: []byte{67}}, nil)
		cDone = true
	}()
	go func() {
		// the peer: answers every request it sees with the request's own body (C's first, so that a
		// reply routed by a reused id reaches the wrong caller)
		var pending []*goatorepo.Rpc
		for len(pending) < 2 {
			pending = append(pending, <-conn.wch)
		}
		for i := len(pending) - 1; i >= 0; i-- {
			w := pending[i]
			conn.in <- &goatorepo.Rpc{Id: w.Id, Header: zzRespHdr(), Body: &goatorepo.Body{Data: w.Body.Data}, Trailer: &goatorepo.Trailer{}}
		}
	}()
	vfAtQuiescence(func() {
		vfAssert(aErr != nil, "call-whose-request-could-not-be-written-fails")
		vfAssert(bDone && cDone, "other-calls-return")
		if !bDone || !cDone {
			return
		}
		vfAssert(bErr == nil && bBody != nil && len(bBody.Data) == 1 && bBody.Data[0] == 66, "in-flight-call-gets-its-own-reply")
		vfAssert(cErr == nil && cBody != nil && len(cBody.Data) == 1 && cBody.Data[0] == 67, "later-call-gets-its-own-reply")
		ids := map[uint64]int{}
		for _, w := range conn.out {
			ids[w.Id]++
		}
		for _, n := range ids {
			vfAssert(n == 1, "wire-ids-pairwise-distinct")
		}
		vfReach("checked")
	})
}

// H_C05_blocked_write: call A's request is stuck in a congested link for as long as the scenario
// lasts (its context never ends). Calls started meanwhile are not held up by it: B's request is
// written, and B receives its own reply.
func H_C05_blocked_write() {
	conn := newZZConn()
	conn.wch = make(chan *goatorepo.Rpc, 8)
	conn.congestData = 65
	rm := NewRpcMultiplexer(conn)
	var bBody *goatorepo.Body
	var bErr error
	bDone := false
	go func() {
		vfHarnessGoroutine()
		rm.CallUnaryMethod(context.Background(), zzHdr(), &goatorepo.Body{Data: []byte{65}}, nil)
	}()
	go func() {
		bBody, bErr = rm.CallUnaryMethod(context.Background(), zzHdr(), &goatorepo.Body{Data: []byte{66}}, nil)
		bDone = true
	}()
	go func() {
		w := <-conn.wch
		conn.in <- &goatorepo.Rpc{Id: w.Id, Header: zzRespHdr(), Body: &goatorepo.Body{Data: w.Body.Data}, Trailer: &goatorepo.Trailer{}}
	}()
	vfAtQuiescence(func() {
		vfAssert(bDone, "call-not-held-up-by-another-calls-stuck-write")
		if bDone {
			vfAssert(bErr == nil && bBody != nil && len(bBody.Data) == 1 && bBody.Data[0] == 66, "gets-its-own-reply")
		}
		vfReach("checked")
	})
}
