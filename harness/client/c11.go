//go:build verif

package client

import (
	"context"
	"google.golang.org/grpc"
	"time"

	goatorepo "github.com/avos-io/goat/gen/goatorepo"
	"github.com/avos-io/goat/gen/testproto"
)

// H_C11_client_extra: a peer that sends more than expected. A stream (mode 0) or a unary
// call (mode 1) has ended on the client; the peer sends r further envelopes for its id and
// then the reply of a probe unary call. The probe must complete with its own reply.
func H_C11_client_extra() {
	mode := vfParam("mode", 0)
	r := vfParam("extra", 2)
	conn := newZZConn()
	conn.wch = make(chan *goatorepo.Rpc, 8)
	rm := NewRpcMultiplexer(conn)
	probeDone := false
	var probeBody *goatorepo.Body
	var probeErr error
	firstDone := make(chan struct{})
	registered := make(chan struct{})
	first := uint64(1)
	probeVal := vfByte("probe")
	// peer script: runs after the first call's id is known to be 1 (first allocation)
	go func() {
		if mode == 1 {
			<-conn.wch // the first call's request is on the wire
		} else {
			<-registered
		}
		if mode == 0 {
			conn.in <- &goatorepo.Rpc{Id: first, Header: zzRespHdr(), Status: &goatorepo.ResponseStatus{Code: 0}, Trailer: &goatorepo.Trailer{}}
		} else {
			conn.in <- &goatorepo.Rpc{Id: first, Header: zzRespHdr(), Body: &goatorepo.Body{Data: []byte{1}}, Trailer: &goatorepo.Trailer{}}
		}
		for i := 0; i < r; i++ {
			conn.in <- &goatorepo.Rpc{Id: first, Header: zzRespHdr(), Body: &goatorepo.Body{Data: []byte{2}}}
		}
		<-firstDone
		<-conn.wch // the probe's request is on the wire
		// reply to the probe (id 2) once its request has been written
		conn.in <- &goatorepo.Rpc{Id: 2, Header: zzRespHdr(), Body: &goatorepo.Body{Data: []byte{probeVal}}, Trailer: &goatorepo.Trailer{}}
	}()
	go func() {
		if mode == 0 {
			id, rw, teardown, err := rm.NewStreamReadWriter(context.Background())
			vfAssert(err == nil && id == first, "stream-registered-with-first-id")
			close(registered)
			cs := NewStream(context.Background(), id, "/s/m", rw, teardown, "c", "s", nil, time.Time{})
			out := new(testproto.Msg)
			err = cs.RecvMsg(out)
			vfAssert(err != nil, "stream-ends")
		} else {
			_, err := rm.CallUnaryMethod(context.Background(), zzHdr(), &goatorepo.Body{Data: []byte{9}}, nil)
			vfAssert(err == nil, "first-unary-succeeds")
		}
		close(firstDone)
		probeBody, probeErr = rm.CallUnaryMethod(context.Background(), zzHdr(), &goatorepo.Body{Data: []byte{7}}, nil)
		probeDone = true
	}()
	vfAtQuiescence(func() {
		vfAssert(probeDone, "probe-call-returns")
		if probeDone {
			vfAssert(probeErr == nil && probeBody != nil && len(probeBody.Data) == 1 && probeBody.Data[0] == probeVal, "probe-gets-its-own-reply")
			vfReach("probe-ok")
		}
	})
}

// H_C11_client_cancel_unread: a stream's caller stops reading with m responses delivered to
// the connection but unread, then cancels (at any point after opening). The stream must be
// torn down (its reset written), and a probe call started afterwards must complete.
func H_C11_client_cancel_unread() {
	m := vfParam("m", 3)
	sender := vfParam("sender", 0) // 1: another goroutine of the caller has a SendMsg in progress on a congested link
	conn := newZZConn()
	conn.wch = make(chan *goatorepo.Rpc, 8)
	conn.congested = sender == 1
	rm := NewRpcMultiplexer(conn)
	ctx, cancel := context.WithCancel(context.Background())
	opened := make(chan struct{})
	var theStream grpc.ClientStream
	sendReturned := sender == 0
	streamDone := false
	probeDone := false
	var probeErr error
	pv := vfByte("probe")
	go func() {
		id, rw, teardown, err := rm.NewStreamReadWriter(ctx)
		vfAssert(err == nil && id == 1, "stream-registered")
		cs := NewStream(ctx, id, "/s/m", rw, teardown, "c", "s", nil, time.Time{})
		theStream = cs
		close(opened)
		<-ctx.Done() // the caller never receives; it only waits for its own cancellation
		out := new(testproto.Msg)
		err = cs.RecvMsg(out)
		vfAssert(err != nil, "receive-after-cancel-fails")
		streamDone = true
		var b *goatorepo.Body
		b, probeErr = rm.CallUnaryMethod(context.Background(), zzHdr(), &goatorepo.Body{Data: []byte{7}}, nil)
		vfAssert(probeErr != nil || (len(b.Data) == 1 && b.Data[0] == pv), "probe-reply-is-its-own")
		probeDone = true
	}()
	go func() {
		<-opened
		for i := 0; i < m; i++ {
			conn.in <- &goatorepo.Rpc{Id: 1, Header: zzRespHdr(), Body: &goatorepo.Body{Data: []byte{8, byte(i + 1), 0, 0, 0}}}
		}
		// answer the probe (id 2) when its request shows up (the reset of stream 1 may come first)
		for {
			w := <-conn.wch
			if w.Id == 2 {
				conn.in <- &goatorepo.Rpc{Id: 2, Header: zzRespHdr(), Body: &goatorepo.Body{Data: []byte{pv}}, Trailer: &goatorepo.Trailer{}}
				return
			}
		}
	}()
	go func() {
		<-opened
		cancel()
	}()
	if sender == 1 {
		go func() {
			<-opened
			err := theStream.SendMsg(&testproto.Msg{Value: 5})
			vfAssert(err != nil, "send-on-a-congested-link-fails-once-the-call-is-cancelled")
			sendReturned = true
		}()
	}
	vfAtQuiescence(func() {
		vfAssert(sendReturned, "sender-returns-after-cancellation")
		vfAssert(streamDone, "cancelled-caller-returns")
		vfAssert(probeDone && probeErr == nil, "probe-started-after-the-abandonment-completes")
		resets := 0
		for _, w := range conn.out {
			if w.Id == 1 && w.Reset_ != nil {
				resets++
			}
		}
		vfAssert(resets == 1, "reset-for-the-abandoned-stream-written-exactly-once")
		vfReach("checked")
	})
}

// zzLateFail is a link on which the write of call 1's opening envelope (header only) goes out
// but is reported as failed once the caller's context ends (a write deadline that fires after the
// bytes left): allowed transport behaviour.
type zzLateFail struct {
	*zzConn
	sent chan struct{}
}

func (c *zzLateFail) Write(ctx context.Context, rpc *goatorepo.Rpc) error {
	if rpc.Id == 1 && rpc.Body == nil && rpc.Reset_ == nil && rpc.Trailer == nil {
		c.zzConn.Write(ctx, rpc) // it did go out
		close(c.sent)
		<-ctx.Done()
		return ctx.Err()
	}
	return c.zzConn.Write(ctx, rpc)
}

// H_C11_failed_open: a stream's opening write fails (after the envelope went out) when the caller
// gives up; the peer, which saw the open, has already answered with m envelopes for that id.
// The failed open must release the call (the caller gets its error), and a probe call started
// afterwards completes - the connection is not wedged by responses nobody will ever read.
func H_C11_failed_open() {
	m := vfParam("m", 2)
	base := newZZConn()
	base.wch = make(chan *goatorepo.Rpc, 8)
	conn := &zzLateFail{zzConn: base, sent: make(chan struct{})}
	rm := NewRpcMultiplexer(conn)
	ctx, cancel := context.WithCancel(context.Background())
	openDone, probeDone := false, false
	var openErr, probeErr error
	pv := vfByte("probe")
	go func() {
		// what ClientConn.newStream does: register, write the open, release on failure
		id, rw, teardown, err := rm.NewStreamReadWriter(ctx)
		vfAssert(err == nil && id == 1, "stream-registered")
		openErr = rw.Write(ctx, &goatorepo.Rpc{Id: id, Header: zzHdr()})
		if openErr != nil {
			teardown()
		}
		openDone = true
		var b *goatorepo.Body
		b, probeErr = rm.CallUnaryMethod(context.Background(), zzHdr(), &goatorepo.Body{Data: []byte{7}}, nil)
		vfAssert(probeErr != nil || (len(b.Data) == 1 && b.Data[0] == pv), "probe-reply-is-its-own")
		probeDone = true
	}()
	go func() {
		<-conn.sent
		for i := 0; i < m; i++ {
			base.in <- &goatorepo.Rpc{Id: 1, Header: zzRespHdr(), Body: &goatorepo.Body{Data: []byte{8, byte(i + 1), 0, 0, 0}}}
		}
		for {
			w := <-base.wch
			if w.Id == 2 {
				base.in <- &goatorepo.Rpc{Id: 2, Header: zzRespHdr(), Body: &goatorepo.Body{Data: []byte{pv}}, Trailer: &goatorepo.Trailer{}}
				return
			}
		}
	}()
	go func() {
		<-conn.sent
		cancel()
	}()
	vfAtQuiescence(func() {
		vfAssert(openDone && openErr != nil, "failed-open-returns-its-error")
		vfAssert(probeDone && probeErr == nil, "probe-started-after-the-failed-open-completes")
		vfReach("checked")
	})
}
