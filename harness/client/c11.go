//go:build verif

package client

import (
	"context"
	"google.golang.org/grpc"
	"time"

	goatorepo "github.com/avos-io/goat/gen/goatorepo"
	"github.com/avos-io/goat/gen/testproto"
)

// H_C11_client_extra: a peer that sends more than expected. A stream (mode 0) or a unary
// call (mode 1) has ended on the client; the peer sends r further envelopes for its id and
// then the reply of a probe unary call. The probe must complete with its own reply.
func H_C11_client_extra() {
	mode := vfParam("mode", 0)
	r := vfParam("extra", 2)
	conn := newZZConn()
	conn.wch = make(chan *goatorepo.Rpc, 8)
	rm := NewRpcMultiplexer(conn)
	probeDone := false
	var probeBody *goatorepo.Body
	var probeErr error
	firstDone := make(chan struct{})
	registered := make(chan struct{})
	first := uint64(1)
	probeVal := vfByte("probe")
	// peer script: runs after the first call's id is known to be 1 (first allocation)
	go func() {
		if mode == 1 {
			<-conn.wch // the first call's request is on the wire
		} else {
			<-registered
		}
		if mode == 0 {
			conn.in <- &goatorepo.Rpc{Id: first, Header: zzRespHdr(), Status: &goatorepo.ResponseStatus{Code: 0}, Trailer: &goatorepo.Trailer{}}
		} else {
			conn.in <- &goatorepo.Rpc{Id: first, Header: zzRespHdr(), Body: &goatorepo.Body{Data: []byte{1}}, Trailer: &goatorepo.Trailer{}}
		}
		for i := 0; i < r; i++ {
			conn.in <- &goatorepo.Rpc{Id: first, Header: zzRespHdr(), Body: &goatorepo.Body{Data: []byte{2}}}
		}
		<-firstDone
		<-conn.wch // the probe's request is on the wire
		// reply to the probe (id 2) once its request has been written
		conn.in <- &goatorepo.Rpc{Id: 2, Header: zzRespHdr(), Body: &goatorepo.Body{Data: []byte{probeVal}}, Trailer: &goatorepo.Trailer{}}
	}()
	go func() {
		if mode == 0 {
			id, rw, teardown, err := rm.NewStreamReadWriter(context.Background())
			vfAssert(err == nil && id == first, "stream-registered-with-first-id")
			close(registered)
			cs := NewStream(context.Background(), id, "/s/m", rw, teardown, "c", "s", nil, time.Time{})
			out := new(testproto.Msg)
			err = cs.RecvMsg(out)
			vfAssert(err != nil, "stream-ends")
		} else {
			_, err := rm.CallUnaryMethod(context.Background(), zzHdr(), &goatorepo.Body{Data: []byte{9}}, nil)
			vfAssert(err == nil, "first-unary-succeeds")
		}
		close(firstDone)
		probeBody, probeErr = rm.CallUnaryMethod(context.Background(), zzHdr(), &goatorepo.Body{Data: []byte{7}}, nil)
		probeDone = true
	}()
	vfAtQuiescence(func() {
		vfAssert(probeDone, "probe-call-returns")
		if probeDone {
			vfAssert(probeErr == nil && probeBody != nil && len(probeBody.Data) == 1 && probeBody.Data[0] == probeVal, "probe-gets-its-own-reply")
			vfReach("probe-ok")
		}
	})
}

// H_C11_client_cancel_unread: a stream's caller stops reading with m responses delivered to
// the connection but unread, then cancels (at any point after opening). The stream must be
// torn down (its reset written), and a probe call started afterwards must complete.
func H_C11_client_cancel_unread() {
	m := vfParam("m", 3)
	sender := vfParam("sender", 0) // 1: another goroutine of the caller has a SendMsg in progress on a congested link
	conn := newZZConn()
	conn.wch = make(chan *goatorepo.Rpc, 8)
	conn.congested = sender == 1
	rm := NewRpcMultiplexer(conn)
	ctx, cancel := context.WithCancel(context.Background())
	opened := make(chan struct{})
	var theStream grpc.ClientStream
	sendReturned := sender == 0
	streamDone := false
	probeDone := false
	var probeErr error
	pv := vfByte("probe")
	go func() {
		id, rw, teardown, err := rm.NewStreamReadWriter(ctx)
		vfAssert(err == nil && id == 1, "stream-registered")
		cs := NewStream(ctx, id, "/s/m", rw, teardown, "c", "s", nil, time.Time{})
		theStream = cs
		close(opened)
		<-ctx.Done() // the caller never receives; it only waits for its own cancellation
		out := new(testproto.Msg)
		err = cs.RecvMsg(out)
		vfAssert(err != nil, "receive-after-cancel-fails")
		streamDone = true
		var b *goatorepo.Body
		b, probeErr = rm.CallUnaryMethod(context.Background(), zzHdr(), &goatorepo.Body{Data: []byte{7}}, nil)
		vfAssert(probeErr != nil || (len(b.Data) == 1 && b.Data[0] == pv), "probe-reply-is-its-own")
		probeDone = true
	}()
	go func() {
		<-opened
		for i := 0; i < m; i++ {
			conn.in <- &goatorepo.Rpc{Id: 1, Header: zzRespHdr(), Body: &goatorepo.Body{Data: []byte{8, byte(i + 1), 0, 0, 0}}}
		}
		// answer the probe (id 2) when its request shows up (the reset of stream 1 may come first)
		for {
			w := <-conn.wch
			if w.Id == 2 {
				conn.in <- &goatorepo.Rpc{Id: 2, Header: zzRespHdr(), Body: &goatorepo.Body{Data: []byte{pv}}, Trailer: &goatorepo.Trailer{}}
				return
			}
		}
	}()
	go func() {
		<-opened
		cancel()
	}()
	if sender == 1 {
		go func() {
			<-opened
			err := theStream.SendMsg(&testproto.Msg{Value: 5})
			vfAssert(err != nil, "send-on-a-congested-link-fails-once-the-call-is-cancelled")
			sendReturned = true
		}()
	}
	vfAtQuiescence(func() {
		vfAssert(sendReturned, "sender-returns-after-cancellation")
		vfAssert(streamDone, "cancelled-caller-returns")
		vfAssert(probeDone && probeErr == nil, "probe-started-after-the-abandonment-completes")
		resets := 0
		for _, w := range conn.out {
			if w.Id == 1 && w.Reset_ != nil {
				resets++
			}
		}
		vfAssert(resets == 1, "reset-for-the-abandoned-stream-written-exactly-once")
		vfReach("checked")
	})
}
