//go:build verif

package client

import (
	goatorepo "github.com/avos-io/goat/gen/goatorepo"
)

// H_C05_dispatch: handleResponse from an arbitrary registry of two calls with symbolic
// distinct ids: an envelope with a symbolic id reaches the call registered under that id
// and no other; unknown ids are dropped.
func H_C05_dispatch() {
	conn := newZZConn()
	rm := NewRpcMultiplexer(conn)
	a, b, x := vfUint64("a"), vfUint64("b"), vfUint64("x")
	vfAssume(a != b)
	cha := make(chan *goatorepo.Rpc, 1)
	chb := make(chan *goatorepo.Rpc, 1)
	vfFieldSetUint(rm, "streamCounter", 0xffffffff)
	rm.mutex.Lock()
	rm.handlers[a] = &respHandler{ch: cha, abandoned: make(chan struct{})}
	rm.handlers[b] = &respHandler{ch: chb, abandoned: make(chan struct{})}
	rm.mutex.Unlock()
	env := &goatorepo.Rpc{Id: x, Header: zzRespHdr()}
	rm.handleResponse(env)
	switch {
	case x == a:
		vfAssert(len(cha) == 1 && len(chb) == 0, "delivered-to-the-owner-only")
		vfReach("to-a")
	case x == b:
		vfAssert(len(chb) == 1 && len(cha) == 0, "delivered-to-the-owner-only")
		vfReach("to-b")
	default:
		vfAssert(len(cha) == 0 && len(chb) == 0, "unknown-id-dropped")
		vfReach("dropped")
	}
	if len(cha) == 1 {
		vfAssert(<-cha == env, "the-envelope-itself")
	}
}
