//go:build verif

package client

import (
	"context"
	"errors"
	"io"
	"time"

	goatorepo "github.com/avos-io/goat/gen/goatorepo"
	"github.com/avos-io/goat/gen/testproto"
)

// H_C09_unary_race: smallest form of the check-then-register window.
func H_C09_unary_race() {
	conn := newZZConn()
	rm := NewRpcMultiplexer(conn)
	go func() { conn.rerr <- errors.New("boom") }()
	done := false
	var err error
	var res *goatorepo.Body
	go func() {
		res, err = rm.CallUnaryMethod(context.Background(), zzHdr(), &goatorepo.Body{Data: []byte{1}}, nil)
		done = true
	}()
	vfAtQuiescence(func() {
		vfAssert(done, "caller-returned")
		if done {
			vfAssert(err != nil && res == nil, "caller-failed")
			vfReach("returned")
		}
	})
}

// H_C09_fail: the transport's read fails after `prefix` envelopes of the call's response
// sequence. kind: 0 unary, 1 stream. timing: 0 the call is in flight (request written)
// before any response/failure; 1 the call races with the failure (no ordering at all);
// 2 the call starts after the failure was recorded. wfail: the write side fails too.
func H_C09_fail() {
	kind := vfParam("kind", 0)
	timing := vfParam("timing", 0)
	prefix := vfParam("prefix", 0)
	wfail := vfParam("wfail", 0)
	eof := vfParam("eof", 0) // the read failure is io.EOF (1) or wraps io.EOF (2): the peer closed the connection; 3/4: it is / wraps context.Canceled
	conn := newZZConn()
	conn.wch = make(chan *goatorepo.Rpc, 8)
	rm := NewRpcMultiplexer(conn)
	val := vfByte("val")
	vfAssume(val != 0) // the codec model has no 5-byte encoding of the zero message
	// the full response sequence of the call (id 1)
	var seq []*goatorepo.Rpc
	if kind == 0 {
		seq = []*goatorepo.Rpc{{Id: 1, Header: zzRespHdr(), Body: &goatorepo.Body{Data: []byte{val}}, Trailer: &goatorepo.Trailer{}}}
	} else {
		seq = []*goatorepo.Rpc{
			{Id: 1, Header: zzRespHdr(), Body: &goatorepo.Body{Data: []byte{8, val, 0, 0, 0}}},
			{Id: 1, Header: zzRespHdr(), Status: &goatorepo.ResponseStatus{Code: 0}, Trailer: &goatorepo.Trailer{}},
		}
	}
	if prefix > len(seq) {
		prefix = len(seq)
	}
	if timing != 0 {
		prefix = 0 // responses are only meaningful once the request is known to be registered
	}
	go func() {
		if timing == 0 {
			<-conn.wch
		}
		for i := 0; i < prefix; i++ {
			conn.in <- seq[i]
		}
		if wfail == 1 {
			conn.mu.vfLock()
			conn.failWrite = errors.New("write side down")
			conn.mu.vfUnlock()
		}
		switch eof {
		case 1:
			conn.rerr <- io.EOF
		case 2:
			conn.rerr <- &zzWrapErr{io.EOF}
		case 3: // the transport's read fails with a context error of its own (e.g. a torn-down websocket)
			conn.rerr <- context.Canceled
		case 4:
			conn.rerr <- &zzWrapErr{context.Canceled}
		default:
			conn.rerr <- errors.New("connection reset")
		}
	}()
	done := false
	var uBody *goatorepo.Body
	var uErr error
	var got []int32
	var termErr, hdrErr, sendErr, openErr error
	go func() {
		if timing == 2 {
			<-rm.ctx.Done() // closeError has started; the next lock acquisition sees its result
		}
		if kind == 0 {
			uBody, uErr = rm.CallUnaryMethod(context.Background(), zzHdr(), &goatorepo.Body{Data: []byte{7}}, nil)
			done = true
			return
		}
		id, rw, teardown, err := rm.NewStreamReadWriter(context.Background())
		if err != nil {
			openErr = err
			done = true
			return
		}
		// open envelope, as ClientConn.newStream does
		if err := rw.Write(context.Background(), &goatorepo.Rpc{Id: id, Header: zzHdr()}); err != nil {
			openErr = err
			teardown()
			done = true
			return
		}
		cs := NewStream(context.Background(), id, "/s/m", rw, teardown, "c", "s", nil, time.Time{})
		for {
			out := new(testproto.Msg)
			err := cs.RecvMsg(out)
			if err != nil {
				termErr = err
				break
			}
			got = append(got, out.Value)
			if len(got) > 3 {
				vfFail("more-messages-than-delivered")
				break
			}
		}
		_, hdrErr = cs.Header()
		sendErr = cs.SendMsg(&testproto.Msg{Value: 1})
		_ = cs.Trailer()
		done = true
	}()
	vfAtQuiescence(func() {
		vfAssert(done, "every-call-returns")
		if !done {
			return
		}
		if kind == 0 {
			if uErr == nil {
				vfAssert(timing == 0 && prefix == 1, "no-fabricated-unary-success")
				vfAssert(uBody != nil && len(uBody.Data) == 1 && uBody.Data[0] == val, "unary-result-is-the-delivered-reply")
				vfReach("unary-success")
			} else {
				vfReach("unary-error")
			}
			if timing == 2 {
				vfAssert(uErr != nil, "call-after-failure-fails")
			}
			if timing == 0 && prefix == 1 {
				vfAssert(uErr == nil, "complete-response-is-returned")
			}
			return
		}
		if openErr != nil {
			vfReach("stream-open-error")
			vfAssert(timing != 0 || wfail == 1, "open-fails-only-after-failure")
			return
		}
		if timing == 2 {
			vfFail("stream-opened-after-failure")
		}
		if termErr == io.EOF {
			vfAssert(timing == 0 && prefix == 2, "no-fabricated-stream-success")
			vfReach("stream-success")
		} else {
			vfAssert(termErr != nil, "terminal-error-set")
			vfReach("stream-error")
		}
		if timing == 0 && prefix == 2 {
			vfAssert(termErr == io.EOF, "complete-stream-reports-EOF")
		}
		vfAssert(len(got) <= prefix, "no-fabricated-messages")
		for _, g := range got {
			vfAssert(g == int32(val), "message-content-as-delivered")
		}
		if timing == 0 && prefix >= 1 {
			vfAssert(len(got) == 1, "delivered-message-is-received")
			vfAssert(hdrErr == nil, "header-known-after-first-response")
		}
		if prefix == 0 {
			vfAssert(hdrErr != nil, "header-fails-when-nothing-arrived")
		}
		vfAssert(sendErr != nil, "send-after-end-fails")
	})
}

type zzWrapErr struct{ err error }

func (w *zzWrapErr) Error() string { return "read: " + w.err.Error() }
func (w *zzWrapErr) Unwrap() error { return w.err }
