//go:build verif

package client

import (
	"context"
	"errors"

	goatorepo "github.com/avos-io/goat/gen/goatorepo"
)

func H_C09_unary_race() {
	conn := newZZConn()
	rm := NewRpcMultiplexer(conn)
	go func() { conn.rerr <- errors.New("boom") }()
	done := false
	var err error
	var res *goatorepo.Body
	go func() {
		res, err = rm.CallUnaryMethod(context.Background(),
			&goatorepo.RequestHeader{Method: "/s/m", Source: "c", Destination: "s"},
			&goatorepo.Body{Data: []byte{1}}, nil)
		done = true
	}()
	vfAtQuiescence(func() {
		vfAssert(done, "caller-returned")
		if done {
			vfAssert(err != nil && res == nil, "caller-failed")
			vfReach("returned")
		}
	})
}
