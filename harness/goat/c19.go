//go:build verif

package goat

import (
	"context"
	"errors"
	"net/http"
	"time"

	"github.com/avos-io/goat/gen/goatorepo"
	"github.com/avos-io/goat/internal"
	"github.com/coder/websocket"
	"github.com/jonboulle/clockwork"
	"google.golang.org/protobuf/proto"
)

// H_C19_ws_read: websocket Read over an arbitrary library result.
func H_C19_ws_read() {
	env := internal.VfEnv
	kind := vfChoice("kind", 4) // 0 library error, 1 text frame, 2 undecodable binary, 3 valid binary
	want := &Rpc{Id: vfUint64("id"), Header: &RpcHeader{Method: "/s/m", Source: "a", Destination: "b"}, Body: &goatorepo.Body{Data: []byte{vfByte("b")}}}
	switch kind {
	case 0:
		env.WsReadErr = errors.New("closed")
	case 1:
		env.WsReadType = websocket.MessageText
		env.WsReadData, _ = proto.Marshal(want)
	case 2:
		env.WsReadType = websocket.MessageBinary
		env.WsReadData = vfBytes("garbage", 3)
	default:
		env.WsReadType = websocket.MessageBinary
		env.WsReadData, _ = proto.Marshal(want)
	}
	ws := NewGoatOverWebsocket(nil)
	got, err := ws.Read(context.Background())
	if kind == 3 {
		vfAssert(err == nil && got != nil, "valid-binary-message-delivered")
		if got != nil {
			vfAssert(got.Id == want.Id && got.Header != nil && got.Header.Source == "a" && got.Body != nil && len(got.Body.Data) == 1 && got.Body.Data[0] == want.Body.Data[0], "envelope-equal-to-what-was-written")
		}
		vfReach("valid")
	} else {
		vfAssert(err != nil && got == nil, "non-envelope-input-rejected-never-delivered")
		vfReach("rejected")
	}
}

// H_C19_ws_write: websocket Write emits exactly one binary message with the encoding.
func H_C19_ws_write() {
	env := internal.VfEnv
	fail := vfChoice("fail", 2)
	if fail == 1 {
		env.WsWriteErr = errors.New("broken")
	}
	ws := NewGoatOverWebsocket(nil)
	msg := &Rpc{Id: vfUint64("id"), Header: &RpcHeader{Source: "a"}}
	if vfParam("zero", 0) == 1 {
		msg = &Rpc{} // the envelope with every field absent: its encoding is empty, it is still an envelope
	}
	err := ws.Write(context.Background(), msg)
	if fail == 1 {
		vfAssert(err != nil, "write-error-reported")
		return
	}
	vfAssert(err == nil, "write-ok")
	vfAssert(len(env.WsWrites) == 1 && env.WsWriteType[0] == websocket.MessageBinary, "exactly-one-binary-message")
	var back Rpc
	if len(env.WsWrites) != 1 {
		return
	}
	vfAssert(proto.Unmarshal(env.WsWrites[0], &back) == nil && back.Id == msg.Id && (back.Header == nil) == (msg.Header == nil) && (msg.Header == nil || back.Header.Source == "a"), "bytes-are-the-encoding-of-the-envelope")
	vfReach("checked")
}

// H_C19_channel: the channel transport is FIFO and its blocked Read/Write return when
// their context is cancelled.
func H_C19_channel() {
	q := make(chan *Rpc, 1)
	a := NewGoatOverChannel(make(chan *Rpc), q) // writes into q
	b := NewGoatOverChannel(q, make(chan *Rpc)) // reads from q
	ctx, cancel := context.WithCancel(context.Background())
	ids := []uint64{vfUint64("a"), vfUint64("b"), vfUint64("c")}
	wrote, readAll, blockedReadReturned, blockedWriteReturned := false, false, false, false
	go func() {
		for _, id := range ids {
			vfAssert(a.Write(context.Background(), &Rpc{Id: id}) == nil, "write-ok")
		}
		wrote = true
	}()
	go func() {
		for _, id := range ids {
			r, err := b.Read(context.Background())
			vfAssert(err == nil && r.Id == id, "read-in-write-order-unchanged")
		}
		readAll = true
		// now a Read on the empty channel blocks until its context is done
		_, err := b.Read(ctx)
		vfAssert(err != nil, "blocked-read-fails-on-cancel")
		blockedReadReturned = true
	}()
	full := make(chan *Rpc)
	c := NewGoatOverChannel(nil, full)
	go func() {
		err := c.Write(ctx, &Rpc{Id: 1}) // nobody ever reads `full`
		vfAssert(err != nil, "blocked-write-fails-on-cancel")
		blockedWriteReturned = true
	}()
	go func() { cancel() }()
	vfAtQuiescence(func() {
		vfAssert(wrote && readAll, "fifo-transfer-completes")
		vfAssert(blockedReadReturned, "blocked-Read-returns-once-context-done")
		vfAssert(blockedWriteReturned, "blocked-Write-returns-once-context-done")
		vfReach("checked")
	})
}

// ---- HTTP -----------------------------------------------------------------------------

type zzRespWriter struct {
	hdr  http.Header
	code int
}

func (w *zzRespWriter) Header() http.Header         { return w.hdr }
func (w *zzRespWriter) Write(b []byte) (int, error) { return len(b), nil }
func (w *zzRespWriter) WriteHeader(c int)           { w.code = c }

type zzBodyReader struct {
	data []byte
	err  error
	pos  int
}

func (b *zzBodyReader) Read(p []byte) (int, error) {
	if b.err != nil {
		return 0, b.err
	}
	if b.pos >= len(b.data) {
		return 0, errEOF
	}
	n := copy(p, b.data[b.pos:])
	b.pos += n
	return n, nil
}
func (b *zzBodyReader) Close() error { return nil }

var errEOF = ioEOF()

type zzFakeClock struct {
	now  time.Time
	tick chan time.Time
}

func (c *zzFakeClock) After(d time.Duration) <-chan time.Time              { return nil }
func (c *zzFakeClock) Sleep(d time.Duration)                               {}
func (c *zzFakeClock) Now() time.Time                                      { return c.now }
func (c *zzFakeClock) Since(t time.Time) time.Duration                     { return c.now.Sub(t) }
func (c *zzFakeClock) NewTicker(d time.Duration) clockwork.Ticker          { return zzFakeTicker{c} }
func (c *zzFakeClock) NewTimer(d time.Duration) clockwork.Timer            { return nil }
func (c *zzFakeClock) AfterFunc(d time.Duration, f func()) clockwork.Timer { return nil }

type zzFakeTicker struct{ c *zzFakeClock }

func (t zzFakeTicker) Chan() <-chan time.Time { return t.c.tick }
func (t zzFakeTicker) Reset(d time.Duration)  {}
func (t zzFakeTicker) Stop()                  {}

// H_C19_http_serve: ServeHTTP over every request shape: malformed => 400 and nothing
// delivered; valid => delivered exactly once to the connection of the mapped source.
func H_C19_http_serve() {
	shape := vfChoice("shape", 7)
	clock := &zzFakeClock{now: time.Unix(1000, 0), tick: make(chan time.Time)}
	connects := 0
	var conn RpcReadWriter
	mapFail := shape == 5
	goh := NewGoatOverHttp(func(id string, rw RpcReadWriter) {
		vfHarnessGoroutine()
		connects++
		conn = rw
	}, func(src string) (string, error) {
		if mapFail {
			return "", errors.New("unknown source")
		}
		return "addr-" + src, nil
	}, WithClock(clock))
	valid := &Rpc{Id: vfUint64("id"), Header: &RpcHeader{Method: "/s/m", Source: "peer", Destination: "me"}}
	req := &http.Request{Method: "POST"}
	switch shape {
	case 0: // no body
	case 1: // body read error
		req.Body = &zzBodyReader{err: errors.New("read failed")}
	case 2: // undecodable
		req.Body = &zzBodyReader{data: vfBytes("garbage", 3)}
	case 3: // header absent
		d, _ := proto.Marshal(&Rpc{Id: 1})
		req.Body = &zzBodyReader{data: d}
	case 4: // source empty
		d, _ := proto.Marshal(&Rpc{Id: 1, Header: &RpcHeader{Method: "/s/m"}})
		req.Body = &zzBodyReader{data: d}
	default: // 5: source mapping fails; 6: valid
		d, _ := proto.Marshal(valid)
		req.Body = &zzBodyReader{data: d}
	}
	w := &zzRespWriter{hdr: http.Header{}}
	served := false
	go func() {
		goh.ServeHTTP(w, req)
		served = true
	}()
	var got *Rpc
	if shape == 6 {
		go func() {
			rw := goh.NewConnection("addr-peer")
			got, _ = rw.Read(context.Background())
		}()
	}
	vfAtQuiescence(func() {
		vfAssert(served, "ServeHTTP-returns")
		if shape == 6 {
			vfAssert(w.code == 0 || w.code == 200, "valid-request-accepted")
			vfAssert(got != nil && got.Id == valid.Id && got.Header.Source == "peer", "valid-envelope-delivered-unchanged")
			vfAssert(connects <= 1, "onConnect-at-most-once-per-source")
			vfReach("valid")
		} else {
			vfAssert(w.code == 400, "malformed-request-answered-with-400")
			vfAssert(connects == 0 && conn == nil, "nothing-delivered-no-connection-announced")
			vfAssert(vfFieldLen(goh, "conns.value") == 0, "no-connection-created-for-malformed-request")
			vfReach("rejected")
		}
		goh.Cancel()
	})
}

// H_C19_http_idle: a delivery in progress, a reader, and the idle-timeout tick of the
// connection cleaner in every relative order: no crash; the reader blocked in Read gets an
// error once the connection has timed out; a reader returns when its context is done.
func H_C19_http_idle() {
	withReader := vfParam("reader", 1)
	clock := &zzFakeClock{now: time.Unix(100000, 0), tick: make(chan time.Time)}
	ctx, cancel := context.WithCancel(context.Background())
	goh := NewGoatOverHttp(func(id string, rw RpcReadWriter) {
		vfHarnessGoroutine()
		rw.Read(ctx) // a user of a newly announced connection reads from it
	}, func(src string) (string, error) { return src, nil },
		WithClock(clock), WithConnectionTimeout(time.Second), WithConnectionCleanupInterval(time.Second))
	d, _ := proto.Marshal(&Rpc{Id: 7, Header: &RpcHeader{Method: "/s/m", Source: "peer"}})
	served := false
	go func() {
		goh.ServeHTTP(&zzRespWriter{hdr: http.Header{}}, &http.Request{Method: "POST", Body: &zzBodyReader{data: d}})
		served = true
	}()
	readReturned := false
	if withReader == 1 {
		go func() {
			rw := goh.NewConnection("peer")
			for {
				_, err := rw.Read(ctx)
				if err != nil {
					break
				}
			}
			readReturned = true
		}()
	}
	go func() {
		// the cleaner's tick: lastActivity is 0 for a connection that never had activity, the
		// clock is far ahead, so every connection is idle past its timeout
		clock.tick <- clock.now
	}()
	go func() { cancel() }()
	vfAtQuiescence(func() {
		if withReader == 1 {
			vfAssert(readReturned, "reader-returns-after-timeout-or-cancel")
			_ = served // a delivery nobody reads legitimately waits for the next idle tick
		}
		vfReach("checked")
		goh.Cancel()
	})
}

// H_C19_http_idle_stamped: a connection that HAS carried traffic (its user read one envelope, which
// stamps the activity time from the clock) falls silent for 30 s against a 10 s timeout; the
// cleaner ticks. A reader blocked in Read with a context that is never cancelled must be failed by
// the sweep - the stamp and the sweep have to agree on the unit of time (seeded change C19g).
func H_C19_http_idle_stamped() {
	clock := &zzFakeClock{now: time.Unix(100000, 0), tick: make(chan time.Time)}
	var conn RpcReadWriter
	announced := make(chan struct{})
	goh := NewGoatOverHttp(func(id string, rw RpcReadWriter) {
		vfHarnessGoroutine()
		conn = rw
		close(announced)
	}, func(src string) (string, error) { return src, nil },
		WithClock(clock), WithConnectionTimeout(10*time.Second), WithConnectionCleanupInterval(time.Second))
	d, _ := proto.Marshal(&Rpc{Id: 7, Header: &RpcHeader{Method: "/s/m", Source: "peer"}})
	go func() {
		goh.ServeHTTP(&zzRespWriter{hdr: http.Header{}}, &http.Request{Method: "POST", Body: &zzBodyReader{data: d}})
	}()
	firstOK := false
	secondReturned := false
	var secondErr error
	go func() {
		<-announced
		got, err := conn.Read(context.Background())
		firstOK = err == nil && got != nil && got.Id == 7
		clock.now = clock.now.Add(30 * time.Second) // silence
		clock.tick <- clock.now
		_, secondErr = conn.Read(context.Background())
		secondReturned = true
	}()
	vfAtQuiescence(func() {
		vfAssert(firstOK, "first-envelope-read")
		vfAssert(secondReturned, "reader-of-idle-connection-is-failed-by-the-sweep")
		vfAssert(secondErr != nil, "read-on-timed-out-connection-fails")
		vfReach("checked")
		goh.Cancel()
	})
}

// H_C19_http_ack: a valid envelope is POSTed while nobody reads the connection; the idle sweep runs;
// only then does the connection's user read. If the sender was told "accepted" (200), the envelope
// must be what that Read returns - an acknowledged envelope is never lost; otherwise the sender got
// an error status and the Read may fail.
func H_C19_http_ack() {
	clock := &zzFakeClock{now: time.Unix(100000, 0), tick: make(chan time.Time)}
	var conn RpcReadWriter
	announced := make(chan struct{})
	goh := NewGoatOverHttp(func(id string, rw RpcReadWriter) {
		vfHarnessGoroutine()
		conn = rw
		close(announced)
	}, func(src string) (string, error) { return src, nil },
		WithClock(clock), WithConnectionTimeout(time.Second), WithConnectionCleanupInterval(time.Second))
	d, _ := proto.Marshal(&Rpc{Id: 7, Header: &RpcHeader{Method: "/s/m", Source: "peer"}})
	w := &zzRespWriter{hdr: http.Header{}}
	served := false
	go func() {
		goh.ServeHTTP(w, &http.Request{Method: "POST", Body: &zzBodyReader{data: d}})
		served = true
	}()
	ticked := make(chan struct{})
	go func() {
		<-announced
		clock.tick <- clock.now // every connection is idle past its timeout
		close(ticked)
	}()
	var got *Rpc
	readDone := false
	go func() {
		<-ticked
		ctx, cancel := context.WithCancel(context.Background())
		go func() { cancel() }() // the reader does not wait forever
		got, _ = conn.Read(ctx)
		readDone = true
	}()
	vfAtQuiescence(func() {
		vfAssert(served && readDone, "ServeHTTP-and-Read-return")
		if served && (w.code == 0 || w.code == 200) {
			vfAssert(got != nil && got.Id == 7, "acknowledged-envelope-is-delivered")
			vfReach("acknowledged")
		} else {
			vfReach("refused")
		}
		vfReach("checked")
		goh.Cancel()
	})
}

// H_C19_ws_write_conc: two goroutines write on one WebSocket transport at the same time (the client
// multiplexer does exactly that: every caller writes from its own goroutine). Both envelopes go out
// as separate, complete binary messages; run in race mode, the transport's own state must not be
// written unsynchronised.
func H_C19_ws_write_conc() {
	env := internal.VfEnv
	ws := NewGoatOverWebsocket(nil)
	done := 0
	var mu vfMutex
	for i := 0; i < 2; i++ {
		id := uint64(i + 1)
		go func() {
			err := ws.Write(context.Background(), &Rpc{Id: id, Header: &RpcHeader{Source: "a"}})
			vfAssert(err == nil, "write-ok")
			mu.vfLock()
			done++
			mu.vfUnlock()
		}()
	}
	vfAtQuiescence(func() {
		vfAssert(done == 2 && len(env.WsWrites) == 2, "both-envelopes-written")
		seen := map[uint64]bool{}
		for _, b := range env.WsWrites {
			var back Rpc
			vfAssert(proto.Unmarshal(b, &back) == nil, "each-message-is-one-complete-envelope")
			seen[back.Id] = true
		}
		vfAssert(seen[1] && seen[2], "each-envelope-written-once")
		vfReach("checked")
	})
}
