//go:build verif

package goat

import (
	"context"
	"math"
	"time"

	"github.com/avos-io/goat/gen/goatorepo"
	"google.golang.org/grpc/metadata"
)

// specTimeout is the reference reading of the gRPC timeout grammar (weakest reading
// of C08): class 0 = must be rejected; 1 = must be accepted with value exact;
// 2 = more than 8 digits: rejected, or accepted with value exact.
func specTimeout(s string) (class int, exact int64) {
	n := len(s)
	if n < 2 {
		return 0, 0
	}
	var unit int64
	switch s[n-1] {
	case 'H':
		unit = int64(time.Hour)
	case 'M':
		unit = int64(time.Minute)
	case 'S':
		unit = int64(time.Second)
	case 'm':
		unit = int64(time.Millisecond)
	case 'u':
		unit = int64(time.Microsecond)
	case 'n':
		unit = 1
	default:
		return 0, 0
	}
	var v int64
	for i := 0; i < n-1; i++ {
		c := s[i]
		if c < '0' || c > '9' {
			return 0, 0
		}
		if v > (math.MaxInt64-9)/10 {
			// more than 18 digits of magnitude: saturated in any unit
			v = math.MaxInt64 / 2
		} else {
			v = v*10 + int64(c-'0')
		}
	}
	if v > math.MaxInt64/unit {
		exact = math.MaxInt64
	} else {
		exact = v * unit
	}
	if n-1 <= 8 {
		return 1, exact
	}
	return 2, exact
}

// H_C08_parse: the real parser against the specification for every string of
// length n (every byte value).
func H_C08_parse() {
	n := vfParam("n", 3)
	s := vfString("timeout", n)
	d, ok := parseGrpcTimeout(s)
	class, exact := specTimeout(s)
	switch class {
	case 0:
		vfAssert(!ok, "malformed-value-rejected")
		vfReach("malformed")
	case 1:
		vfAssert(ok, "wellformed-value-accepted")
		if ok {
			vfAssert(int64(d) == exact, "value-exact-saturating")
			vfAssert(d >= 0, "value-nonnegative")
		}
		vfReach("wellformed")
	default:
		if ok {
			vfAssert(int64(d) == exact, "overlong-value-exact-or-ignored")
			vfAssert(d >= 0, "overlong-value-nonnegative")
		}
		vfReach("overlong")
	}
}

// letter-case variants of "grpc-timeout": each letter independently upper or lower.
func zzTimeoutKey(label string) string {
	base := "grpc-timeout"
	b := make([]byte, len(base))
	for i := 0; i < len(base); i++ {
		c := base[i]
		if c >= 'a' && c <= 'z' {
			x := vfByte(label)
			vfAssume(x|0x20 == c) // c is a lower-case letter: x is c in either case
			c = x
		}
		b[i] = c
	}
	return string(b)
}

// H_C08_lookup: header lookup in contextFromHeaders over a symbolic header list.
func H_C08_lookup() {
	entries := vfParam("entries", 2)
	vlen := vfParam("vlen", 3)
	var hs []*goatorepo.KeyValue
	firstOK := -1
	var want int64
	for i := 0; i < entries; i++ {
		var key string
		isT := false
		switch vfChoice("keykind", 4) {
		case 0:
			key = zzTimeoutKey("case")
			isT = true
		case 1:
			key = "x-other"
		case 2:
			key = "grpc-timeouts"
		default:
			key = "grpc-timeou"
		}
		val := vfString("val", vlen)
		hs = append(hs, &goatorepo.KeyValue{Key: key, Value: val})
		if isT && firstOK < 0 {
			class, exact := specTimeout(val)
			if class == 1 {
				firstOK = i
				want = exact
			}
		}
	}
	at := time.Now()
	vfFreezeClock(true)
	ctx, cancel, err := contextFromHeaders(context.Background(), &goatorepo.RequestHeader{Headers: hs})
	vfFreezeClock(false)
	vfAssert(err == nil, "no-error-for-text-metadata")
	defer cancel()
	dl, has := ctx.Deadline()
	if firstOK >= 0 {
		vfAssert(has, "deadline-set-for-valid-timeout-header")
		if has {
			if vfIsSymbolic() {
				// the clock is frozen inside the call: the deadline is exactly arrival + timeout
				vfAssert(dl.Sub(at) == time.Duration(want), "deadline-equals-arrival-plus-exact-timeout")
			} else {
				// native replay: real time passes between the two clock readings
				d := dl.Sub(at)
				vfAssert(d >= time.Duration(want) && d < time.Duration(want)+time.Second, "deadline-equals-arrival-plus-exact-timeout")
			}
		}
		vfReach("has-deadline")
	} else {
		vfAssert(!has, "no-deadline-without-valid-timeout-header")
		vfReach("no-deadline")
	}
	md, ok := metadata.FromIncomingContext(ctx)
	vfAssert(ok && len(md) >= 1, "metadata-still-delivered")
}
