//go:build verif

package goat

import (
	"context"
	"errors"
	"io"

	"github.com/avos-io/goat/gen/testproto"
	"google.golang.org/grpc"
	"google.golang.org/grpc/metadata"
)

// zzFlaky wraps a transport end; when armed, writes fail.
type zzFlaky struct {
	rw   RpcReadWriter
	mu   vfMutex
	fail bool
}

func (f *zzFlaky) Read(ctx context.Context) (*Rpc, error) { return f.rw.Read(ctx) }
func (f *zzFlaky) Write(ctx context.Context, r *Rpc) error {
	f.mu.vfLock()
	fail := f.fail
	f.mu.vfUnlock()
	if fail {
		return errors.New("transport write failed")
	}
	return f.rw.Write(ctx, r)
}

// H_C14_release: one complete RPC of a chosen kind and outcome on a real client/server
// pair; afterwards neither side holds a registration or goroutine for it. A second RPC
// (`pre`=1: a stream that stays open) is registered before and must be left untouched -
// so the post-state is again an idle-compatible state and histories of any length follow
// by induction. outcome: 0 unary ok, 1 unary handler error, 2 stream ok, 3 stream handler
// error, 4 stream caller cancel (at any point), 5 stream open whose transport write fails,
// 6 unary whose transport write fails, 7 cancel of an idle stream while the reset cannot be
// written, 8 unary call that ends by its deadline (handler waits for its context).
func H_C14_release() {
	outcome := vfParam("outcome", 0)
	pre := vfParam("pre", 0)
	impl := &zzImpl{}
	var herr error
	if outcome == 1 || outcome == 3 {
		herr = errors.New("handler failed")
	}
	waitForDeadline := false
	unaryRunning := 0
	impl.unary = func(ctx context.Context, in *testproto.Msg) (*testproto.Msg, error) {
		impl.mu.vfLock()
		unaryRunning++
		impl.mu.vfUnlock()
		defer func() {
			impl.mu.vfLock()
			unaryRunning--
			impl.mu.vfUnlock()
		}()
		if waitForDeadline {
			<-ctx.Done() // a handler that ends only through its context
			return nil, ctx.Err()
		}
		if herr != nil {
			return nil, herr
		}
		return &testproto.Msg{Value: in.GetValue() + 1}, nil
	}
	echo := func(srv any, stream grpc.ServerStream) error {
		for {
			in := new(testproto.Msg)
			err := stream.RecvMsg(in)
			if err == io.EOF {
				return herr
			}
			if err != nil {
				return err
			}
			if err := stream.SendMsg(in); err != nil {
				return err
			}
		}
	}
	idle := func(srv any, stream grpc.ServerStream) error {
		<-stream.Context().Done()
		return stream.Context().Err()
	}
	srv := zzNewServer("srv", impl, map[string]grpc.StreamHandler{"BidiStream": echo, "ServerStream": idle})
	tcap := vfParam("tcap", 2)
	c2s := make(chan *Rpc, tcap)
	s2c := make(chan *Rpc, tcap)
	flaky := &zzFlaky{rw: NewGoatOverChannel(s2c, c2s)}
	go func() {
		vfHarnessGoroutine()
		srv.Serve(context.Background(), NewGoatOverChannel(c2s, s2c))
	}()
	cc := NewClientConn(flaky, "cli", "srv")
	bidi := &grpc.StreamDesc{ClientStreams: true, ServerStreams: true}
	base := 0
	idleLevel := -1
	done := false
	ready := make(chan struct{})
	go func() {
		// warm-up: one complete unary call, after which only the connection-level goroutines
		// (read loops, writer, workers - however many the implementation uses) are alive: that
		// is the idle level the census must return to
		{
			saved := herr
			herr = nil
			out := new(testproto.Msg)
			werr := cc.Invoke(context.Background(), "/"+zzSvcName+"/Unary", &testproto.Msg{Value: 1}, out)
			vfAssert(werr == nil, "warm-up-call-succeeds")
			herr = saved
			idleLevel = vfCensus()
		}
		if pre == 1 {
			_, err := cc.NewStream(context.Background(), bidi, "/"+zzSvcName+"/ServerStream")
			vfAssert(err == nil, "pre-existing-stream-opens")
			base = 1
		}
		close(ready)
		switch outcome {
		case 0, 1, 6:
			if outcome == 6 {
				flaky.mu.vfLock()
				flaky.fail = true
				flaky.mu.vfUnlock()
			}
			out := new(testproto.Msg)
			err := cc.Invoke(context.Background(), "/"+zzSvcName+"/Unary", &testproto.Msg{Value: 1}, out)
			vfAssert((err != nil) == (outcome != 0), "unary-outcome")
		case 8:
			// deadline: a unary call with a deadline and outgoing metadata whose handler waits for its
			// context. Timers are armed from here on: the caller's deadline and the one the server derives
			// from the timeout header may each expire at any point.
			waitForDeadline = true
			vfArmTimers(true)
			ctx, cancel := context.WithTimeout(metadata.AppendToOutgoingContext(context.Background(), "k", "v"), 3600000000000)
			out := new(testproto.Msg)
			err := cc.Invoke(ctx, "/"+zzSvcName+"/Unary", &testproto.Msg{Value: 1}, out)
			vfAssert(err != nil, "deadline-outcome")
			cancel()
		case 7:
			// the caller cancels an idle stream while the transport (transiently) refuses writes:
			// the reset cannot be written, the registration must go all the same
			ctx, cancel := context.WithCancel(context.Background())
			cs, err := cc.NewStream(ctx, bidi, "/"+zzSvcName+"/ServerStream")
			vfAssert(err == nil, "opens")
			flaky.mu.vfLock()
			flaky.fail = true
			flaky.mu.vfUnlock()
			cancel()
			if err == nil {
				out := new(testproto.Msg)
				for cs.RecvMsg(out) == nil {
				}
			}
		case 2, 3, 4:
			ctx, cancel := context.WithCancel(context.Background())
			if outcome == 4 {
				go func() { cancel() }()
			}
			cs, err := cc.NewStream(ctx, bidi, "/"+zzSvcName+"/BidiStream")
			if err == nil {
				cs.SendMsg(&testproto.Msg{Value: 1})
				out := new(testproto.Msg)
				cs.RecvMsg(out)
				cs.CloseSend()
				for cs.RecvMsg(out) == nil {
				}
			}
			cancel()
		default:
			flaky.mu.vfLock()
			flaky.fail = true
			flaky.mu.vfUnlock()
			_, err := cc.NewStream(context.Background(), bidi, "/"+zzSvcName+"/BidiStream")
			vfAssert(err != nil, "open-fails")
		}
		flaky.mu.vfLock()
		flaky.fail = false
		flaky.mu.vfUnlock()
		done = true
	}()
	vfAtQuiescence(func() {
		vfAssert(done, "rpc-finishes")
		if !done {
			return
		}
		// registries are reached by name (the client's through the connection, the server's by a heap
		// walk for its per-connection handler); -1 = this tree has no such names, the goroutine
		// census below still applies
		creg := vfFieldLen(cc, "mp.handlers")
		vfAssert(creg < 0 || creg == base, "client-registry-back-to-its-previous-size")
		if outcome == 7 {
			// the server never learns about the cancellation (the reset could not be written): only the client side is checked
			vfReach("checked")
			return
		}
		sreg := vfHeapFieldLen("handler", "streams")
		vfAssert(sreg < 0 || sreg == base, "server-registry-back-to-its-previous-size")
		if creg >= 0 && sreg >= 0 {
			vfReach("registries-inspected")
		}
		// goroutines: the idle level measured after the warm-up call plus, with a pre-existing
		// stream, its client read loop and its server handler
		vfAssert(vfCensus() == idleLevel+2*base, "goroutines-back-to-the-idle-level")
		// pooled workers do not show in the census: a handler still running for an RPC that has ended
		// is a held worker
		vfAssert(unaryRunning == 0, "no-unary-handler-still-running")
		vfReach("checked")
	})
	_ = ready
}
