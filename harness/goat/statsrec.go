//go:build verif

package goat

import (
	"context"

	"google.golang.org/grpc/stats"
)

// zzRecStats records the stats events per RPC tag.
type zzRecStats struct {
	mu       vfMutex
	ntags    int
	events   map[int][]string // tag -> event kinds
	endErr   map[int]bool     // tag -> End.Error != nil
	untagged int
	conn     []string
}

type zzTagKey struct{ h *zzRecStats }

func newZZRecStats() *zzRecStats {
	return &zzRecStats{events: map[int][]string{}, endErr: map[int]bool{}}
}

func (z *zzRecStats) TagRPC(ctx context.Context, _ *stats.RPCTagInfo) context.Context {
	z.mu.vfLock()
	defer z.mu.vfUnlock()
	z.ntags++
	return context.WithValue(ctx, zzTagKey{z}, z.ntags)
}

func (z *zzRecStats) HandleRPC(ctx context.Context, s stats.RPCStats) {
	z.mu.vfLock()
	defer z.mu.vfUnlock()
	tag, ok := ctx.Value(zzTagKey{z}).(int)
	if !ok {
		z.untagged++
		return
	}
	kind := "other"
	switch e := s.(type) {
	case *stats.Begin:
		kind = "begin"
	case *stats.End:
		kind = "end"
		z.endErr[tag] = e.Error != nil
	}
	z.events[tag] = append(z.events[tag], kind)
}

func (z *zzRecStats) TagConn(ctx context.Context, _ *stats.ConnTagInfo) context.Context { return ctx }

func (z *zzRecStats) HandleConn(ctx context.Context, s stats.ConnStats) {
	z.mu.vfLock()
	defer z.mu.vfUnlock()
	switch s.(type) {
	case *stats.ConnBegin:
		z.conn = append(z.conn, "begin")
	case *stats.ConnEnd:
		z.conn = append(z.conn, "end")
	}
}

// check: for every tag: begin first, exactly one begin, exactly one end.
func (z *zzRecStats) wellPaired(wantRPCs int, wantFail []bool) {
	vfAssert(z.untagged == 0, "every-event-carries-the-TagRPC-context")
	vfAssert(z.ntags == wantRPCs, "one-tag-per-RPC")
	for tag := 1; tag <= z.ntags; tag++ {
		ev := z.events[tag]
		vfAssert(len(ev) >= 2, "begin-and-end-present")
		if len(ev) < 2 {
			continue
		}
		vfAssert(ev[0] == "begin", "begin-is-the-first-event")
		nb, ne := 0, 0
		for _, k := range ev {
			if k == "begin" {
				nb++
			}
			if k == "end" {
				ne++
			}
		}
		vfAssert(nb == 1, "exactly-one-begin")
		vfAssert(ne == 1, "exactly-one-end")
		// (that End is the LAST event is not part of the property as stated: a payload event of a send
		// that races with the end of the stream may be reported after it)
		if wantFail != nil && tag-1 < len(wantFail) {
			vfAssert(z.endErr[tag] == wantFail[tag-1], "End.Error-nil-exactly-when-the-RPC-succeeded")
		}
	}
}
