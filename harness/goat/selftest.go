//go:build verif

package goat

import (
	"strings"
	"time"
)

// H_selftest_lib: library functions the engine executes or models, on symbolic and concrete
// inputs, against their documented results (also run natively by the translator validation).
func H_selftest_lib() {
	s := vfString("s", 3)
	i := strings.Index(s, "/")
	if i >= 0 {
		vfAssert(s[i] == '/', "Index-points-at-the-separator")
		for j := 0; j < i; j++ {
			vfAssert(s[j] != '/', "Index-is-the-first")
		}
	} else {
		vfAssert(!strings.Contains(s, "/"), "Contains-agrees-with-Index")
	}
	vfAssert(strings.Join([]string{"a", s, "b"}, ",") == "a,"+s+",b", "Join")
	vfAssert(strings.HasPrefix("grpc-timeout", "grpc-") && strings.TrimPrefix("x/y", "x/") == "y", "prefix-functions")
	parts := strings.Split("a/b/c", "/")
	vfAssert(len(parts) == 3 && parts[2] == "c", "Split")
	vfAssert(strings.ToUpper(strings.ToLower(s)) == strings.ToUpper(s), "case-mapping-idempotent")
	svc, m, err := parseRawMethod("/" + s + "/m")
	vfAssert(err == nil && m == "m" && svc == s, "parseRawMethod-splits-at-the-last-slash")
	d, ok := parseGrpcTimeout("4H")
	vfAssert(ok && d == 4*time.Hour, "repo-test-vector-4H")
	d, ok = parseGrpcTimeout("4n")
	vfAssert(ok && d == 4, "repo-test-vector-4n")
	_, ok = parseGrpcTimeout("")
	vfAssert(!ok, "repo-test-vector-empty")
	_, ok = parseGrpcTimeout("H")
	vfAssert(!ok, "repo-test-vector-unit-only")
	vfReach("checked")
}
