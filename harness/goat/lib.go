//go:build verif

package goat

import (
	"context"
	"io"

	"google.golang.org/grpc/encoding"
	protoenc "google.golang.org/grpc/encoding/proto"
	"google.golang.org/grpc/mem"

	"github.com/avos-io/goat/gen/testproto"
	"google.golang.org/grpc"
)

// zzImpl is the service implementation used by end-to-end harnesses.
type zzImpl struct {
	testproto.UnimplementedTestServiceServer
	mu     vfMutex
	unary  func(ctx context.Context, in *testproto.Msg) (*testproto.Msg, error)
	ncalls int
	reqs   []int32
}

func (z *zzImpl) Unary(ctx context.Context, in *testproto.Msg) (*testproto.Msg, error) {
	z.mu.vfLock()
	z.ncalls++
	z.reqs = append(z.reqs, in.GetValue())
	z.mu.vfUnlock()
	return z.unary(ctx, in)
}

const zzSvcName = "grpcwebsockets.TestService"

// zzNewServer builds a Server with the test service registered (RegisterService uses
// reflection and is outside the encoding; the registry is constructed directly).
func zzNewServer(id string, impl *zzImpl, streams map[string]grpc.StreamHandler, opts ...ServerOption) *Server {
	srv := NewServer(id, opts...)
	info := &serviceInfo{
		name:        zzSvcName,
		serviceImpl: impl,
		methods:     map[string]*grpc.MethodDesc{},
		streams:     map[string]*grpc.StreamDesc{},
	}
	info.methods["Unary"] = &testproto.TestService_ServiceDesc.Methods[0]
	for name, h := range streams {
		cs, ss := true, true
		switch name {
		case "ServerStream":
			cs = false
		case "ClientStream":
			ss = false
		}
		info.streams[name] = &grpc.StreamDesc{StreamName: name, Handler: h, ClientStreams: cs, ServerStreams: ss}
	}
	srv.services[zzSvcName] = info
	return srv
}

// zzPair returns the two ends of an in-process by-reference transport.
func zzPair() (client RpcReadWriter, server RpcReadWriter) {
	// tcap: queue capacity of the channel transport in each direction. 0 = rendezvous
	// (writes block until the peer reads); scenarios in which one side sends without
	// reading need a transport that accepts their writes (any network transport does).
	tcap := vfParam("tcap", 0)
	c2s := make(chan *Rpc, tcap)
	s2c := make(chan *Rpc, tcap)
	return NewGoatOverChannel(s2c, c2s), NewGoatOverChannel(c2s, s2c)
}

func ioEOF() error { return io.EOF }

// zzEnc / zzDec encode and decode a testproto.Msg through the codec in force (the engine's
// codec model symbolically, the real protobuf codec natively), so that harnesses that build
// or inspect bodies behave the same in both worlds.
func zzEnc(v int32) []byte {
	bs, err := encoding.GetCodecV2(protoenc.Name).Marshal(&testproto.Msg{Value: v})
	if err != nil {
		panic(err)
	}
	return bs.Materialize()
}

func zzDec(b []byte) int32 {
	m := new(testproto.Msg)
	if err := encoding.GetCodecV2(protoenc.Name).Unmarshal(mem.BufferSlice{mem.SliceBuffer(b)}, m); err != nil {
		return -1
	}
	return m.Value
}
