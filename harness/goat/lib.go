//go:build verif

package goat

import (
	"context"
	"io"

	"google.golang.org/grpc/encoding"
	protoenc "google.golang.org/grpc/encoding/proto"
	"google.golang.org/grpc/mem"

	"github.com/avos-io/goat/gen/goatorepo"
	"github.com/avos-io/goat/gen/testproto"
	"google.golang.org/grpc"
	"google.golang.org/grpc/codes"
	"google.golang.org/grpc/status"
)

// zzImpl is the service implementation used by end-to-end harnesses.
type zzImpl struct {
	testproto.UnimplementedTestServiceServer
	mu     vfMutex
	unary  func(ctx context.Context, in *testproto.Msg) (*testproto.Msg, error)
	ncalls int
	reqs   []int32
}

func (z *zzImpl) Unary(ctx context.Context, in *testproto.Msg) (*testproto.Msg, error) {
	z.mu.vfLock()
	z.ncalls++
	z.reqs = append(z.reqs, in.GetValue())
	z.mu.vfUnlock()
	return z.unary(ctx, in)
}

const zzSvcName = "grpcwebsockets.TestService"

// zzNewServer builds a Server with the test service registered through the exported
// RegisterService (its reflect.TypeOf/Elem/Implements check is modelled by the engine). The
// service descriptor is the generated one with the requested streaming handlers.
func zzNewServer(id string, impl *zzImpl, streams map[string]grpc.StreamHandler, opts ...ServerOption) *Server {
	srv := NewServer(id, opts...)
	sd := &grpc.ServiceDesc{
		ServiceName: zzSvcName,
		HandlerType: (*testproto.TestServiceServer)(nil),
		Methods:     testproto.TestService_ServiceDesc.Methods[:1],
		Metadata:    testproto.TestService_ServiceDesc.Metadata,
	}
	for _, name := range []string{"ServerStream", "ClientStream", "BidiStream"} {
		h, ok := streams[name]
		if !ok {
			continue
		}
		cs, ss := true, true
		switch name {
		case "ServerStream":
			cs = false
		case "ClientStream":
			ss = false
		}
		sd.Streams = append(sd.Streams, grpc.StreamDesc{StreamName: name, Handler: h, ClientStreams: cs, ServerStreams: ss})
	}
	for name, h := range streams {
		if name != "ServerStream" && name != "ClientStream" && name != "BidiStream" {
			sd.Streams = append(sd.Streams, grpc.StreamDesc{StreamName: name, Handler: h, ClientStreams: true, ServerStreams: true})
		}
	}
	srv.RegisterService(sd, impl)
	return srv
}

// zzPair returns the two ends of an in-process by-reference transport.
func zzPair() (client RpcReadWriter, server RpcReadWriter) {
	// tcap: queue capacity of the channel transport in each direction. 0 = rendezvous
	// (writes block until the peer reads); scenarios in which one side sends without
	// reading need a transport that accepts their writes (any network transport does).
	tcap := vfParam("tcap", 0)
	c2s := make(chan *Rpc, tcap)
	s2c := make(chan *Rpc, tcap)
	return NewGoatOverChannel(s2c, c2s), NewGoatOverChannel(c2s, s2c)
}

func ioEOF() error { return io.EOF }

// zzEnc / zzDec encode and decode a testproto.Msg through the codec in force (the engine's
// codec model symbolically, the real protobuf codec natively), so that harnesses that build
// or inspect bodies behave the same in both worlds.
func zzEnc(v int32) []byte {
	bs, err := encoding.GetCodecV2(protoenc.Name).Marshal(&testproto.Msg{Value: v})
	if err != nil {
		panic(err)
	}
	return bs.Materialize()
}

func zzDec(b []byte) int32 {
	m := new(testproto.Msg)
	if err := encoding.GetCodecV2(protoenc.Name).Unmarshal(mem.BufferSlice{mem.SliceBuffer(b)}, m); err != nil {
		return -1
	}
	return m.Value
}

// zzSymName: a 2-byte name with symbolic second byte (lets names coincide or differ).
func zzSymName(label string, prefix byte) string {
	return string([]byte{prefix, vfByte(label)})
}

func zzCode(err error) codes.Code {
	if err == nil {
		return codes.OK
	}
	st, _ := status.FromError(err)
	return st.Code()
}

// handler programs (hp): 0 echo until EOF; 1 burst of m messages then return nil (reads nothing);
// 2 reply after EOF (one reply per received message); 3 return nil after the first message (before EOF)
func zzStreamHandler(rec *zzStreamRec, hp int, m int, k int32, retErr error) grpc.StreamHandler {
	return func(srv any, stream grpc.ServerStream) error {
		rec.mu.vfLock()
		rec.started++
		rec.ctx = stream.Context()
		rec.mu.vfUnlock()
		defer func() {
			rec.mu.vfLock()
			rec.returned++
			rec.mu.vfUnlock()
		}()
		switch hp {
		case 0:
			for {
				in := new(testproto.Msg)
				err := stream.RecvMsg(in)
				if err == io.EOF {
					rec.sawEOF = true
					return retErr
				}
				if err != nil {
					rec.recvErr = err
					return err
				}
				rec.recvd = append(rec.recvd, in.Value)
				if err := stream.SendMsg(&testproto.Msg{Value: in.Value ^ k}); err != nil {
					rec.sendErrs++
					return err
				}
			}
		case 1:
			for i := 0; i < m; i++ {
				if err := stream.SendMsg(&testproto.Msg{Value: int32(i+1) ^ k}); err != nil {
					rec.sendErrs++
					return err
				}
			}
			return retErr
		case 2:
			for {
				in := new(testproto.Msg)
				err := stream.RecvMsg(in)
				if err == io.EOF {
					rec.sawEOF = true
					break
				}
				if err != nil {
					rec.recvErr = err
					return err
				}
				rec.recvd = append(rec.recvd, in.Value)
			}
			for _, v := range rec.recvd {
				if err := stream.SendMsg(&testproto.Msg{Value: v ^ k}); err != nil {
					rec.sendErrs++
					return err
				}
			}
			return retErr
		default:
			in := new(testproto.Msg)
			err := stream.RecvMsg(in)
			if err == io.EOF {
				rec.sawEOF = true
				return retErr
			}
			if err != nil {
				rec.recvErr = err
				return err
			}
			rec.recvd = append(rec.recvd, in.Value)
			return retErr
		}
	}
}

func zzBody(v byte) *goatorepo.Body {
	if v == 0 {
		return &goatorepo.Body{}
	}
	return &goatorepo.Body{Data: []byte{8, v, 0, 0, 0}}
}

func zzRespHdr() *RpcHeader {
	return &RpcHeader{Method: "/" + zzSvcName + "/X", Source: "srv", Destination: "cli"}
}

// zzStreamRec records what a streaming handler observed.
type zzStreamRec struct {
	mu       vfMutex
	started  int
	returned int
	recvd    []int32
	sawEOF   bool
	recvErr  error
	sendErrs int
	ctxDone  bool
	ctx      context.Context
}
