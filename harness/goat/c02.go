//go:build verif

package goat

import (
	"context"
	"io"

	"github.com/avos-io/goat/gen/testproto"
	"google.golang.org/grpc"
)

func zzIsEOF(err error) bool { return err == io.EOF }

// H_C02_stream: one bidirectional stream between a real client and a real server.
// cp (client program): 0 send-all, half-close, receive-all; 1 ping-pong then half-close;
// 2 separate sender and receiver goroutines; 3 half-close first (no messages), then receive.
func H_C02_stream() {
	cp := vfParam("cp", 0)
	hp := vfParam("hp", 0)
	n := vfParam("msgs", 1)
	k := vfInt32("k")
	rec := &zzStreamRec{}
	srv := zzNewServer("srv", &zzImpl{}, map[string]grpc.StreamHandler{"BidiStream": zzStreamHandler(rec, hp, n, k, nil)})
	crw, srw := zzPair()
	go func() { srv.Serve(context.Background(), srw) }()
	cc := NewClientConn(crw, "cli", "srv")
	sent := make([]int32, n)
	for i := range sent {
		sent[i] = vfInt32("msg")
	}
	var got []int32
	var termErr error
	finished := false
	sendsOK := true
	var sendErr error
	send := func(cs grpc.ClientStream, v int32) {
		if err := cs.SendMsg(&testproto.Msg{Value: v}); err != nil {
			sendsOK = false
			if sendErr == nil {
				sendErr = err
			}
		}
	}
	go func() {
		cs, err := cc.NewStream(context.Background(), &grpc.StreamDesc{ClientStreams: true, ServerStreams: true}, "/"+zzSvcName+"/BidiStream")
		vfAssert(err == nil, "stream-opens")
		if err != nil {
			return
		}
		recvAll := func() {
			for {
				out := new(testproto.Msg)
				err := cs.RecvMsg(out)
				if err != nil {
					termErr = err
					return
				}
				got = append(got, out.Value)
				if len(got) > 2*n+2 {
					vfFail("receives-more-than-sent")
					return
				}
			}
		}
		switch cp {
		case 0:
			for i := 0; i < n; i++ {
				send(cs, sent[i])
			}
			vfAssert(cs.CloseSend() == nil || hp == 1 || hp == 3, "half-close-succeeds")
			recvAll()
		case 1:
			for i := 0; i < n; i++ {
				send(cs, sent[i])
				if hp == 0 {
					out := new(testproto.Msg)
					if err := cs.RecvMsg(out); err != nil {
						termErr = err
						finished = true
						return
					}
					got = append(got, out.Value)
				}
			}
			cs.CloseSend()
			recvAll()
		case 2:
			sdone := make(chan struct{})
			go func() {
				for i := 0; i < n; i++ {
					send(cs, sent[i])
				}
				cs.CloseSend()
				close(sdone)
			}()
			recvAll()
			<-sdone
		default:
			cs.CloseSend()
			recvAll()
		}
		finished = true
	}()
	vfAtQuiescence(func() {
		vfAssert(finished, "client-program-terminates")
		if !finished {
			return
		}
		vfAssert(rec.started == 1 && rec.returned == 1, "handler-ran-once-and-returned")
		// the handler returned nil: the caller must observe io.EOF, never Canceled or another error
		vfAssert(zzIsEOF(termErr), "successful-stream-ends-with-EOF")
		// a send on a stream that completed successfully reports io.EOF, not a context error
		vfAssert(sendErr == nil || zzIsEOF(sendErr), "send-after-successful-completion-reports-EOF")
		nsent := n
		if cp == 3 {
			nsent = 0
		}
		switch hp {
		case 0, 2:
			vfAssert(sendsOK, "sends-succeed")
			vfAssert(rec.sawEOF, "handler-sees-EOF-after-half-close")
			vfAssert(len(rec.recvd) == nsent, "handler-receives-every-message-once")
			vfAssert(len(got) == nsent, "caller-receives-every-reply-once")
			for i := 0; i < nsent && i < len(rec.recvd) && i < len(got); i++ {
				vfAssert(rec.recvd[i] == sent[i], "handler-receives-in-order-unaltered")
				vfAssert(got[i] == sent[i]^k, "caller-receives-in-order-unaltered")
			}
		case 1:
			vfAssert(len(got) == n, "caller-receives-whole-burst")
			for i := 0; i < n && i < len(got); i++ {
				vfAssert(got[i] == int32(i+1)^k, "burst-in-order-unaltered")
			}
		default:
			vfAssert(len(got) == 0, "no-replies-from-silent-handler")
		}
		vfReach("checked")
	})
}
