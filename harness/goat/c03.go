//go:build verif

package goat

import (
	"context"
	"errors"
	"fmt"
	"io"

	"github.com/avos-io/goat/gen/testproto"
	pkgerrors "github.com/pkg/errors"
	"google.golang.org/grpc"
	"google.golang.org/grpc/codes"
	"google.golang.org/grpc/status"
	"google.golang.org/protobuf/types/known/anypb"
)

// zzGenErr: the error a handler finishes with. ek: 0 nil; 1 status error (symbolic code
// 1..16, symbolic 2-byte message incl. non-ASCII bytes); 2 the same wrapped with fmt.Errorf
// %w; 3 plain error with symbolic text; 4 context.Canceled; 5 context.DeadlineExceeded;
// 6 status error with `nd` details; 7 status error wrapped with pkg/errors.Wrap.
func zzGenErr(ek, nd int) error {
	switch ek {
	case 0:
		return nil
	case 1, 2, 6, 7:
		c := vfInt32("code")
		vfAssume(c >= 1)
		vfAssume(c <= 16)
		st := status.New(codes.Code(c), vfString("msg", 2))
		if ek == 6 {
			p := st.Proto()
			for i := 0; i < nd; i++ {
				p.Details = append(p.Details, &anypb.Any{TypeUrl: "type/" + string([]byte{byte('a' + i)}), Value: vfBytes("detail", 1)})
			}
			st = status.FromProto(p)
		}
		if ek == 2 {
			return fmt.Errorf("outer: %w", st.Err())
		}
		if ek == 7 {
			return pkgerrors.Wrap(st.Err(), "outer")
		}
		return st.Err()
	case 3:
		return errors.New(vfString("text", 2))
	case 4:
		return context.Canceled
	case 8:
		return io.EOF // e.g. a handler returning its own Recv's io.EOF as an error
	case 9:
		return fmt.Errorf("giving up: %w", io.EOF)
	case 10:
		return zzOKStatusErr{} // an error whose gRPC status says OK: still a failure
	default:
		return context.DeadlineExceeded
	}
}

// zzPassThroughInterceptors: n pass-through unary and stream interceptors on the server (the
// handler's outcome must reach the caller through them unchanged).
func zzPassThroughInterceptors(n int) []ServerOption {
	if n == 0 {
		return nil
	}
	var us []grpc.UnaryServerInterceptor
	var ss []grpc.StreamServerInterceptor
	for i := 0; i < n; i++ {
		us = append(us, func(ctx context.Context, req any, info *grpc.UnaryServerInfo, handler grpc.UnaryHandler) (any, error) {
			return handler(ctx, req)
		})
		ss = append(ss, func(srv any, stream grpc.ServerStream, info *grpc.StreamServerInfo, handler grpc.StreamHandler) error {
			return handler(srv, stream)
		})
	}
	if n == 1 {
		return []ServerOption{UnaryInterceptor(us[0]), StreamInterceptor(ss[0])}
	}
	return []ServerOption{ChainUnaryInterceptor(us...), ChainStreamInterceptor(ss...)}
}

// zzOKStatusErr is a (non-nil) error whose GRPCStatus() reports code OK.
type zzOKStatusErr struct{}

func (zzOKStatusErr) Error() string              { return "failed, but my status says OK" }
func (zzOKStatusErr) GRPCStatus() *status.Status { return status.New(codes.OK, "weird") }

func zzSameStatus(got error, want *status.Status, label string) {
	gs, ok := status.FromError(got)
	vfAssert(ok, "caller-error-is-a-status")
	vfAssert(gs.Code() == want.Code(), label+"-code")
	vfAssert(gs.Message() == want.Message(), label+"-message")
	gd, wd := gs.Proto().GetDetails(), want.Proto().GetDetails()
	vfAssert(len(gd) == len(wd), label+"-details-count")
	for i := 0; i < len(gd) && i < len(wd); i++ {
		vfAssert(gd[i].TypeUrl == wd[i].TypeUrl && string(gd[i].Value) == string(wd[i].Value), label+"-details-content")
	}
}

// H_C03_unary: handler result E end to end for a unary call.
func H_C03_unary() {
	ek := vfParam("ek", 1)
	nd := vfParam("nd", 1)
	E := zzGenErr(ek, nd)
	zero := vfParam("zero", 0) // the successful reply is the zero value (it encodes to zero bytes)
	impl := &zzImpl{}
	impl.unary = func(ctx context.Context, in *testproto.Msg) (*testproto.Msg, error) {
		if E != nil {
			return nil, E
		}
		if zero == 1 {
			return &testproto.Msg{}, nil
		}
		return &testproto.Msg{Value: in.GetValue() + 1}, nil
	}
	srv := zzNewServer("srv", impl, nil, zzPassThroughInterceptors(vfParam("ic", 0))...)
	crw, srw := zzPair()
	go func() { srv.Serve(context.Background(), srw) }()
	cc := NewClientConn(crw, "cli", "srv")
	done := false
	var err error
	var got int32
	go func() {
		out := &testproto.Msg{Value: 77}
		err = cc.Invoke(context.Background(), "/"+zzSvcName+"/Unary", &testproto.Msg{Value: 1}, out)
		got = out.GetValue()
		done = true
	}()
	vfAtQuiescence(func() {
		vfAssert(done, "call-returns")
		if !done {
			return
		}
		if E == nil {
			vfAssert(err == nil, "success-exactly-when-handler-returned-nil")
			if zero == 1 {
				vfAssert(err != nil || got == 0, "zero-valued-reply-delivered")
			} else {
				vfAssert(err != nil || got == 2, "reply-delivered")
			}
			vfReach("ok")
			return
		}
		vfAssert(err != nil, "handler-failure-never-reported-as-success")
		if err == nil {
			return
		}
		want, ok := status.FromError(E)
		if !ok {
			want = status.FromContextError(E)
		}
		if ek == 10 {
			// which non-OK code the caller gets for an error whose status says OK is not pinned down by
			// the property; that it is a failure is
			vfReach("error")
			return
		}
		vfAssert(want.Code() != codes.OK, "non-OK")
		zzSameStatus(err, want, "unary-status")
		vfReach("error")
	})
}

// H_C03_stream: a bidi handler returns E at position `pos` (0 before any message, 1 after
// receiving and answering one message) while the caller `sending`=1 keeps sending or
// `sending`=0 only receives.
func H_C03_stream() {
	ek := vfParam("ek", 1)
	nd := vfParam("nd", 1)
	pos := vfParam("pos", 0)
	sending := vfParam("sending", 0)
	E := zzGenErr(ek, nd)
	sh := func(srv any, stream grpc.ServerStream) error {
		for i := 0; i < pos; i++ {
			in := new(testproto.Msg)
			if err := stream.RecvMsg(in); err != nil {
				return err
			}
			if err := stream.SendMsg(in); err != nil {
				return err
			}
		}
		return E
	}
	srv := zzNewServer("srv", &zzImpl{}, map[string]grpc.StreamHandler{"BidiStream": sh}, zzPassThroughInterceptors(vfParam("ic", 0))...)
	crw, srw := zzPair()
	go func() { srv.Serve(context.Background(), srw) }()
	cc := NewClientConn(crw, "cli", "srv")
	done := false
	var termErr error
	nrecv := 0
	go func() {
		cs, err := cc.NewStream(context.Background(), &grpc.StreamDesc{ClientStreams: true, ServerStreams: true}, "/"+zzSvcName+"/BidiStream")
		vfAssert(err == nil, "opens")
		if err != nil {
			done = true
			return
		}
		for i := 0; i < pos; i++ {
			cs.SendMsg(&testproto.Msg{Value: int32(i + 1)})
		}
		if sending == 1 {
			sd := make(chan struct{})
			go func() {
				cs.SendMsg(&testproto.Msg{Value: 77})
				cs.SendMsg(&testproto.Msg{Value: 78})
				close(sd)
			}()
			defer func() { <-sd }()
		}
		for {
			out := new(testproto.Msg)
			if err := cs.RecvMsg(out); err != nil {
				termErr = err
				break
			}
			nrecv++
			if nrecv > pos {
				vfFail("more-messages-than-the-handler-sent")
				break
			}
		}
		done = true
	}()
	vfAtQuiescence(func() {
		vfAssert(done, "caller-returns")
		if !done {
			return
		}
		if E == nil {
			vfAssert(termErr == io.EOF, "EOF-exactly-when-handler-returned-nil")
			vfAssert(nrecv == pos, "all-messages-before-EOF")
			vfReach("ok")
			return
		}
		vfAssert(termErr != io.EOF && termErr != nil, "handler-failure-never-reported-as-EOF")
		want, _ := status.FromError(E)
		if ek == 10 {
			// which non-OK code the caller gets for an error whose status says OK is not pinned down by
			// the property; that it is a failure is
			vfReach("error")
			return
		}
		vfAssert(want.Code() != codes.OK, "non-OK")
		zzSameStatus(termErr, want, "stream-status")
		vfReach("error")
	})
}
