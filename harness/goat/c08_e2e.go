//go:build verif

package goat

import (
	"context"
	"io"
	"time"

	"github.com/avos-io/goat/gen/testproto"
	"google.golang.org/grpc"
	"google.golang.org/grpc/metadata"
)

// Exported API only.

// H_C08_e2e: a real client/server pair; the caller's context carries a symbolic deadline (or
// none) and, optionally, outgoing metadata; the call is unary (kind=0) or streaming (kind=1).
// What the handler's context reports is compared with what the caller set:
//   - the handler has a deadline exactly when the caller has one;
//   - it is later than the caller's minus one millisecond, and not later than the caller's plus
//     the transit time (bounded by the instants t1 <= encode, arrival <= t2 the harness reads),
//     or arrival + 1ms when the caller's deadline was (nearly) expired;
//   - the incoming metadata has the caller's keys, values in order, -bin value byte-exact.
// The clock is the engine's: every time.Now() is a fresh non-decreasing symbolic instant.
func H_C08_e2e() {
	const ms = int64(time.Millisecond)
	kind := vfParam("kind", 0)
	withDL := vfParam("dl", 1)
	withMD := vfParam("md", 0)
	var hmu vfMutex
	reached := false
	var hdl time.Time
	var hhas bool
	var t2 time.Time
	var hmd metadata.MD
	observe := func(ctx context.Context) {
		hmu.vfLock()
		defer hmu.vfUnlock()
		reached = true
		t2 = time.Now()
		hdl, hhas = ctx.Deadline()
		hmd, _ = metadata.FromIncomingContext(ctx)
	}
	impl := &zzImpl{}
	impl.unary = func(ctx context.Context, in *testproto.Msg) (*testproto.Msg, error) {
		observe(ctx)
		return &testproto.Msg{Value: in.GetValue()}, nil
	}
	sh := func(srv any, stream grpc.ServerStream) error {
		observe(stream.Context())
		return nil
	}
	// stats=1: a stats handler is installed on both sides (the RPC's context then passes through TagRPC)
	var sopts []ServerOption
	var copts []DialOption
	if vfParam("stats", 0) == 1 {
		sopts = append(sopts, StatsHandler(newZZRecStats()))
		copts = append(copts, WithStatsHandler(newZZRecStats()))
	}
	srv := zzNewServer("srv", impl, map[string]grpc.StreamHandler{"BidiStream": sh}, sopts...)
	c2s := make(chan *Rpc, 2)
	s2c := make(chan *Rpc, 2)
	go func() { srv.Serve(context.Background(), NewGoatOverChannel(c2s, s2c)) }()
	cc := NewClientConn(NewGoatOverChannel(s2c, c2s), "cli", "srv", copts...)

	v1, v2, b1 := "", "", ""
	ctx := context.Background()
	if withMD == 1 {
		v1, v2, b1 = vfString("v1", 2), vfString("v2", 1), vfString("b1", 2)
		ctx = metadata.AppendToOutgoingContext(ctx, "K", v1, "k", v2, "x-bin", b1)
	}
	t0 := time.Now()
	var dl time.Time
	if withDL == 1 {
		delta := vfInt64("delta")
		vfAssume(delta >= -(1 << 40))        // -18 min ..
		vfAssume(delta <= 36000000000000000) // .. 10^4 h
		dl = t0.Add(time.Duration(delta))
		var cancel context.CancelFunc
		ctx, cancel = context.WithDeadline(ctx, dl)
		_ = cancel
	}
	done := false
	var callErr error
	var t1 time.Time
	go func() {
		t1 = time.Now()
		if kind == 0 {
			out := new(testproto.Msg)
			callErr = cc.Invoke(ctx, "/"+zzSvcName+"/Unary", &testproto.Msg{Value: 3}, out)
		} else {
			cs, err := cc.NewStream(ctx, &grpc.StreamDesc{ClientStreams: true, ServerStreams: true}, "/"+zzSvcName+"/BidiStream")
			callErr = err
			if err == nil {
				out := new(testproto.Msg)
				callErr = cs.RecvMsg(out)
				if callErr == io.EOF {
					callErr = nil
				}
			}
		}
		done = true
	}()
	vfAtQuiescence(func() {
		vfAssert(done, "caller-returns")
		if !reached {
			// only a caller whose deadline had already passed may fail to reach the handler
			vfAssert(withDL == 1 && callErr != nil, "handler-reached-unless-the-deadline-had-passed")
			vfReach("not-reached")
			return
		}
		vfAssert(hhas == (withDL == 1), "handler-has-a-deadline-exactly-when-the-caller-has")
		if withDL == 1 && hhas {
			vfAssert(int64(hdl.Sub(dl)) > -ms, "handler-deadline-not-earlier-than-callers-minus-1ms")
			transit := int64(t2.Sub(t1))
			late := int64(hdl.Sub(dl))
			vfAssert(late <= transit || int64(hdl.Sub(t2)) <= ms, "handler-deadline-not-later-than-callers-plus-transit")
		}
		if withMD == 1 {
			vfAssert(len(hmd["k"]) == 2 && hmd["k"][0] == v1 && hmd["k"][1] == v2, "request-metadata-values-in-order-under-the-lower-cased-key")
			vfAssert(len(hmd["x-bin"]) == 1 && hmd["x-bin"][0] == b1, "request-binary-value-byte-exact")
		}
		vfReach("checked")
	})
}
