//go:build verif

package goat

import (
	"context"
	"errors"
)

// Exported API only (plus name-tolerant peeks into the client table): keeps building when the
// proxy's internals are renamed.

// zzStuck is a transport whose Write never completes (until its context is done) and
// whose Read never delivers.
type zzStuck struct{}

func (zzStuck) Read(ctx context.Context) (*Rpc, error)  { <-ctx.Done(); return nil, ctx.Err() }
func (zzStuck) Write(ctx context.Context, r *Rpc) error { <-ctx.Done(); return ctx.Err() }

func zzEnv(src, dst string, id uint64) *Rpc {
	return &Rpc{Id: id, Header: &RpcHeader{Method: "/s/m", Source: src, Destination: dst}}
}

// H_C17_conc: proxy scenarios under all schedules.
// scenario 0: context cancelled at an arbitrary point while A sends to B: Serve returns and no
//
//	goroutine of the proxy is left.
//
// scenario 1: A re-attaches under its name (new connection) and the old connection's read
//
//	fails (either order): traffic for A reaches the new connection; exactly one disconnect
//	report; the new connection stays attached.
//
// scenario 2: C is a stuck writer; traffic A->C must not delay A->B.
// scenario 3: A's connection read fails: removed and reported exactly once.
// scenario 4: destination D is not attached and its dial fails: reported, A->B unaffected.
func H_C17_conc() {
	sc := vfParam("scenario", 0)
	n := vfParam("n", 1)
	ctx, cancel := context.WithCancel(context.Background())
	var disc []string
	var dmu vfMutex
	onDisc := func(id string, reason error) {
		dmu.vfLock()
		disc = append(disc, id)
		dmu.vfUnlock()
	}
	dial := func(id string) (RpcReadWriter, error) { return nil, errors.New("unreachable") }
	p := NewProxy(ctx, "proxy", dial, nil, onDisc)
	a1, b := newZZConn(), newZZConn()
	p.AddClient("A", a1)
	p.AddClient("B", b)
	served := false
	go func() {
		vfHarnessGoroutine()
		p.Serve()
		served = true
	}()
	sent := 0
	switch sc {
	case 0:
		go func() {
			for i := 0; i < n; i++ {
				a1.in <- zzEnv("A", "B", uint64(i+1))
			}
		}()
		go func() { cancel() }()
		vfAtQuiescence(func() {
			vfAssert(served, "Serve-returns-after-cancellation")
			vfAssert(vfCensus() == 0, "no-proxy-goroutine-left-after-cancellation")
			vfReach("checked")
		})
	case 1:
		a2 := newZZConn()
		go func() {
			p.AddClient("A", a2)
			// afterwards B sends to A
			b.in <- zzEnv("B", "A", 7)
			sent = 1
		}()
		go func() { a1.rerr <- errors.New("old connection lost") }()
		vfAtQuiescence(func() {
			vfAssert(sent == 1, "sender-not-blocked")
			got2 := 0
			for _, w := range a2.written() {
				if w.Id == 7 {
					got2++
				}
			}
			vfAssert(got2 == 1, "traffic-reaches-the-newer-connection-exactly-once")
			nA := 0
			for _, d := range disc {
				if d == "A" {
					nA++
				}
			}
			vfAssert(nA == 1, "old-connection-failure-reported-exactly-once")
			// internal table, by field name (-1: no such names on this tree, check skipped)
			vfAssert(vfMapFieldIs(p, "clients", "A", "conn", RpcReadWriter(a2)) != 0, "newer-connection-stays-attached")
			vfReach("checked")
		})
	case 2:
		p.AddClient("C", zzStuck{})
		go func() {
			a1.in <- zzEnv("A", "C", 100)
			for i := 0; i < n; i++ {
				a1.in <- zzEnv("A", "B", uint64(i+1))
			}
			sent = n
		}()
		vfAtQuiescence(func() {
			vfAssert(sent == n, "sender-never-blocked-by-the-stuck-peer")
			w := b.written()
			vfAssert(len(w) == n, "every-envelope-for-B-delivered")
			for i := 0; i < len(w) && i < n; i++ {
				vfAssert(w[i].Id == uint64(i+1), "in-order")
			}
			vfReach("checked")
		})
	case 3:
		go func() { a1.rerr <- errors.New("connection lost") }()
		go func() {
			b.in <- zzEnv("B", "B", 5) // unrelated traffic keeps flowing
			sent = 1
		}()
		vfAtQuiescence(func() {
			vfAssert(sent == 1, "other-traffic-unaffected")
			nA := 0
			for _, d := range disc {
				if d == "A" {
					nA++
				}
			}
			vfAssert(nA == 1, "failed-connection-reported-exactly-once")
			vfAssert(vfMapHas(p, "clients", "A") != 1, "failed-connection-removed")
			vfReach("checked")
		})
	case 5:
		x := newZZConn()
		attached := make(chan struct{})
		go func() {
			a1.in <- zzEnv("A", "X", 1) // X is not attached yet: dialled on demand (the dial fails)
			<-attached
			a1.in <- zzEnv("A", "X", 2) // X is attached now: this one must reach the attached connection
			sent = 2
		}()
		go func() {
			p.AddClient("X", x)
			close(attached)
		}()
		vfAtQuiescence(func() {
			vfAssert(sent == 2, "sender-not-blocked")
			got := 0
			for _, w := range x.written() {
				if w.Id == 2 {
					got++
				}
			}
			// envelope 2 was accepted after AddClient returned: it must reach the attached connection,
			// whatever happened to the on-demand dial that envelope 1 triggered
			vfAssert(got == 1, "envelope-accepted-after-attachment-reaches-the-attached-peer")
			vfAssert(vfMapFieldIs(p, "clients", "X", "conn", RpcReadWriter(x)) != 0, "attached-connection-stays-in-the-table")
			vfReach("checked")
		})
	case 6:
		// a peer is attached while the proxy is serving and its connection's first read fails at once
		// (in either order with the attachment): it is reported once and does not stay in the table
		c := newZZConn()
		added := false
		go func() {
			p.AddClient("C", c)
			added = true
		}()
		go func() { c.rerr <- errors.New("broken from the start") }()
		vfAtQuiescence(func() {
			vfAssert(added, "AddClient-returns")
			nC := 0
			for _, d := range disc {
				if d == "C" {
					nC++
				}
			}
			vfAssert(nC == 1, "failed-connection-reported-exactly-once")
			vfAssert(vfMapHas(p, "clients", "C") != 1, "failed-connection-removed")
			vfReach("checked")
		})
	default:
		go func() {
			a1.in <- zzEnv("A", "D", 100)
			for i := 0; i < n; i++ {
				a1.in <- zzEnv("A", "B", uint64(i+1))
			}
			sent = n
		}()
		vfAtQuiescence(func() {
			vfAssert(sent == n, "sender-not-blocked-by-unreachable-destination")
			vfAssert(len(b.written()) == n, "traffic-for-B-delivered")
			nD := 0
			for _, d := range disc {
				if d == "D" {
					nD++
				}
			}
			vfAssert(nD == 1, "dial-failure-reported-once")
			vfReach("checked")
		})
	}
}
