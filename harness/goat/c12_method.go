//go:build verif

package goat

import ()

// H_C12_method: parseRawMethod over every string of length n: never panics; drops one leading
// '/', splits at the last '/', and fails exactly when no '/' remains.
func H_C12_method() {
	n := vfParam("n", 4)
	s := vfString("method", n)
	svc, m, err := parseRawMethod(s)
	t := s
	if len(t) > 0 && t[0] == '/' {
		t = t[1:]
	}
	last := -1
	for i := 0; i < len(t); i++ {
		if t[i] == '/' {
			last = i
		}
	}
	if last < 0 {
		vfAssert(err != nil, "no-separator-is-an-error")
		vfReach("error")
		return
	}
	vfAssert(err == nil, "separator-present-parses")
	vfAssert(svc == t[:last] && m == t[last+1:], "split-at-the-last-separator")
	vfReach("parsed")
}
