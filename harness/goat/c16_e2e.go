//go:build verif

package goat

import (
	"context"
	"errors"

	"github.com/avos-io/goat/gen/goatorepo"
)

// This file reaches the proxy through its exported API only (NewProxy, AddClient, Serve and the
// RpcReadWriter connections handed to it), so that it keeps building when the proxy's internals are
// renamed or restructured. The white-box one-step harnesses (c16.go, c17.go) cover what cannot be
// driven from outside (queue fill levels).

// H_C16_e2e: a running proxy with `peers` attached peers; peer p0 sends n accepted envelopes whose
// destination is symbolic (an attached peer, p0 itself, or a name nobody is attached under - then
// the proxy dials on demand and the dial succeeds). Under every schedule each envelope is written
// exactly once, in order, to the connection of the peer the routing rules name, with its route
// record grown by the proxy's id and its return route popped by one; nothing is written anywhere
// else, and a name is dialled at most once.
func H_C16_e2e() {
	peers := vfParam("peers", 2)
	icKind := vfParam("ic", 0)    // 0 none, 1 rewrite destination to a symbolic name, 2 reject
	nextLen := vfParam("next", 0) // ProxyNext hops (0: nil, -1: empty non-nil)
	recLen := vfParam("rec", 0)
	n := vfParam("n", 1)
	var mu vfMutex
	dialed := map[string]*zzConn{}
	ndial := 0
	dial := func(id string) (RpcReadWriter, error) {
		mu.vfLock()
		defer mu.vfUnlock()
		ndial++
		c := newZZConn()
		dialed[id] = c
		return c, nil
	}
	rewriteTo := zzSymName("rewrite", 'p')
	var ic RpcIntercepter
	switch icKind {
	case 1:
		ic = func(h *goatorepo.RequestHeader) error { h.Destination = rewriteTo; return nil }
	case 2:
		ic = func(h *goatorepo.RequestHeader) error { return errors.New("rejected") }
	}
	ctx, cancel := context.WithCancel(context.Background())
	_ = cancel // the proxy keeps running until quiescence
	p := NewProxy(ctx, "proxy", dial, ic, nil)
	names := make([]string, peers)
	conns := make([]*zzConn, peers)
	for i := 0; i < peers; i++ {
		names[i] = string([]byte{'p', byte('0' + i)})
		conns[i] = newZZConn()
		p.AddClient(names[i], conns[i])
	}
	go func() {
		vfHarnessGoroutine()
		p.Serve()
	}()
	src := names[0]
	dst := zzSymName("dst", 'p')
	var next []string
	for i := 0; i < nextLen; i++ {
		next = append(next, zzSymName("hop", 'p'))
	}
	emptyNext := nextLen < 0
	if emptyNext {
		nextLen = 0
	}
	var rec []string
	for i := 0; i < recLen; i++ {
		rec = append(rec, string([]byte{'r', byte('0' + i)}))
	}
	sentEnv := make([]*Rpc, n)
	bodies := make([]*goatorepo.Body, n)
	for i := 0; i < n; i++ {
		hdr := &goatorepo.RequestHeader{Method: "/s/m", Source: src, Destination: dst}
		hdr.ProxyNext = append([]string(nil), next...)
		if emptyNext {
			hdr.ProxyNext = []string{}
		}
		hdr.ProxyRecord = append([]string(nil), rec...)
		bodies[i] = &goatorepo.Body{Data: []byte{vfByte("payload")}}
		sentEnv[i] = &goatorepo.Rpc{Id: uint64(100 + i), Header: hdr, Body: bodies[i]}
	}
	sent := 0
	go func() {
		for i := 0; i < n; i++ {
			conns[0].in <- sentEnv[i]
		}
		sent = n
	}()
	vfAtQuiescence(func() {
		vfAssert(sent == n, "sender-not-blocked")
		if icKind == 2 {
			for i := range conns {
				vfAssert(len(conns[i].written()) == 0, "rejected-envelope-not-forwarded")
			}
			vfAssert(ndial == 0, "rejected-envelope-dials-nobody")
			vfReach("rejected")
			return
		}
		target := dst
		if icKind == 1 {
			target = rewriteTo
		}
		if nextLen > 0 {
			target = next[nextLen-1]
		}
		var tc *zzConn
		for i := range names {
			if names[i] == target {
				tc = conns[i]
			} else {
				vfAssert(len(conns[i].written()) == 0, "nothing-written-to-other-peers")
			}
		}
		if tc == nil {
			vfAssert(ndial == 1, "dialled-on-demand-exactly-once")
			tc = dialed[target]
			vfAssert(tc != nil, "the-name-dialled-is-the-destination")
			if tc == nil {
				return
			}
			vfReach("dialled")
		} else {
			vfAssert(ndial == 0, "attached-destination-not-dialled")
		}
		w := tc.written()
		vfAssert(len(w) == n, "delivered-exactly-once-to-the-destination")
		for i := 0; i < len(w) && i < n; i++ {
			fwd := w[i]
			vfAssert(fwd.Id == uint64(100+i), "in-order")
			vfAssert(fwd.Body == bodies[i] && fwd.Header.Method == "/s/m" && fwd.Header.Source == src, "payload-and-identity-untouched")
			vfAssert(len(fwd.Header.ProxyRecord) == recLen+1, "route-record-grows-by-one")
			for k := 0; k < recLen && k < len(fwd.Header.ProxyRecord); k++ {
				vfAssert(fwd.Header.ProxyRecord[k] == rec[k], "route-record-prefix-kept")
			}
			if len(fwd.Header.ProxyRecord) == recLen+1 {
				vfAssert(fwd.Header.ProxyRecord[recLen] == "proxy", "own-name-appended-exactly-once")
			}
			if nextLen > 0 {
				vfAssert(len(fwd.Header.ProxyNext) == nextLen-1, "return-route-popped-by-one")
				for k := 0; k < nextLen-1 && k < len(fwd.Header.ProxyNext); k++ {
					vfAssert(fwd.Header.ProxyNext[k] == next[k], "return-route-prefix-kept")
				}
			}
		}
		vfReach("forwarded")
	})
}

// H_C17_reject_e2e: a running proxy; the peer attached as `attach` sends one envelope that has no
// header, or claims a symbolic / empty source. Unless the claimed source is the name the connection
// is attached under, nothing is written to any peer and nobody is dialled - and the proxy keeps
// serving: an honest envelope sent afterwards by the same peer is still delivered.
func H_C17_reject_e2e() {
	kind := vfParam("kind", 0) // 0 header absent, 1 symbolic source (any 2 bytes), 2 empty source
	ndial := 0
	var mu vfMutex
	dial := func(id string) (RpcReadWriter, error) {
		mu.vfLock()
		ndial++
		mu.vfUnlock()
		return nil, errors.New("dial refused")
	}
	ctx, cancel := context.WithCancel(context.Background())
	_ = cancel // the proxy keeps running until quiescence
	p := NewProxy(ctx, "proxy", dial, nil, nil)
	attach := "p0"
	if vfParam("unnamed", 0) == 1 {
		attach = ""
	}
	a, b := newZZConn(), newZZConn()
	p.AddClient(attach, a)
	p.AddClient("p1", b)
	go func() {
		vfHarnessGoroutine()
		p.Serve()
	}()
	var rpc *goatorepo.Rpc
	spoofed := true
	switch kind {
	case 0:
		rpc = &goatorepo.Rpc{Id: 1, Body: &goatorepo.Body{}}
	case 1:
		s := vfString("src", 2)
		spoofed = s != attach
		rpc = &goatorepo.Rpc{Id: 1, Header: &goatorepo.RequestHeader{Method: "/s/m", Source: s, Destination: "p1"}}
	default:
		rpc = &goatorepo.Rpc{Id: 1, Header: &goatorepo.RequestHeader{Method: "/s/m", Source: "", Destination: "p1"}}
	}
	if kind == 2 && attach == "" {
		spoofed = false
	}
	sent := 0
	go func() {
		a.in <- rpc
		a.in <- &goatorepo.Rpc{Id: 2, Header: &goatorepo.RequestHeader{Method: "/s/m", Source: attach, Destination: "p1"}}
		sent = 2
	}()
	vfAtQuiescence(func() {
		vfAssert(sent == 2, "sender-not-blocked")
		w := b.written()
		vfAssert(len(a.written()) == 0, "nothing-reflected-to-the-sender")
		vfAssert(ndial == 0, "nobody-dialled")
		if spoofed {
			vfAssert(len(w) == 1, "spoofed-or-headerless-envelope-not-forwarded")
			if len(w) == 1 {
				vfAssert(w[0].Id == 2, "honest-envelope-after-a-bad-one-still-delivered")
			}
			vfReach("rejected")
		} else {
			vfAssert(len(w) == 2, "honest-envelopes-forwarded")
			vfReach("accepted")
		}
	})
}

// zzGated is a peer connection that accepts no write until its gate is opened (a slow reader).
type zzGated struct {
	zzConn
	gate chan struct{}
}

func (c *zzGated) Write(ctx context.Context, rpc *Rpc) error {
	select {
	case <-c.gate:
	case <-ctx.Done():
		return ctx.Err()
	}
	return c.zzConn.Write(ctx, rpc)
}

// H_C16_burst: peer A sends a burst of n envelopes to peer B while B's connection accepts nothing
// (n may exceed the proxy's per-destination buffer); then B catches up. Whatever reaches B arrives
// in A's sending order, each envelope at most once, and at least the buffered ones arrive.
// (Envelopes beyond the buffer are dropped by the proxy: that loss is the recorded known finding of
// C16 and is not asserted here.)
func H_C16_burst() {
	n := vfParam("n", 19)
	ctx, cancel := context.WithCancel(context.Background())
	_ = cancel
	dial := func(id string) (RpcReadWriter, error) { return nil, errors.New("unreachable") }
	p := NewProxy(ctx, "proxy", dial, nil, nil)
	a := newZZConn()
	b := &zzGated{zzConn: *newZZConn(), gate: make(chan struct{})}
	p.AddClient("A", a)
	p.AddClient("B", b)
	go func() {
		vfHarnessGoroutine()
		p.Serve()
	}()
	sent := 0
	go func() {
		for i := 0; i < n; i++ {
			a.in <- zzEnv("A", "B", uint64(i+1))
		}
		sent = n
		close(b.gate)
	}()
	vfAtQuiescence(func() {
		vfAssert(sent == n, "sender-never-blocked-by-the-slow-peer")
		w := b.written()
		min := n
		if min > 16 {
			min = 16
		}
		vfAssert(len(w) >= min, "buffered-envelopes-arrive")
		last := uint64(0)
		for _, r := range w {
			vfAssert(r.Id > last, "per-pair-order-kept-and-no-duplicates")
			last = r.Id
		}
		vfReach("checked")
	})
}
