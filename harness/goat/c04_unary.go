//go:build verif

package goat

import (
	"context"

	"github.com/avos-io/goat/gen/testproto"
	"google.golang.org/grpc"
	"google.golang.org/grpc/metadata"
)

// Exported API only.

// H_C04_unary_md: response metadata of a unary call, observed on the wire (the client API does not
// expose it): the handler sets headers and trailers through grpc.SetHeader / grpc.SendHeader /
// grpc.SetTrailer in the order given by `mode`; the single response envelope carries the header
// values (per key, in call order) and the trailer values, text and -bin, whatever the order and
// whether the handler then succeeds or fails.
// mode 0: SetHeader, SetHeader, SetTrailer; 1: SendHeader, then SetTrailer twice; 2: SetTrailer,
// then SendHeader; 3: SetHeader + SetTrailer, then the handler fails.
func H_C04_unary_md() {
	mode := vfParam("mode", 0)
	v1, v2, b1, t1, t2 := vfString("v1", 1), vfString("v2", 1), vfString("b1", 2), vfString("t1", 1), vfString("t2", 1)
	impl := &zzImpl{}
	impl.unary = func(ctx context.Context, in *testproto.Msg) (*testproto.Msg, error) {
		switch mode {
		case 0, 3:
			grpc.SetHeader(ctx, metadata.MD{"k": {v1}})
			grpc.SetHeader(ctx, metadata.MD{"k": {v2}, "x-bin": {b1}})
			grpc.SetTrailer(ctx, metadata.MD{"t": {t1}})
			grpc.SetTrailer(ctx, metadata.MD{"t": {t2}})
		case 1:
			grpc.SetHeader(ctx, metadata.MD{"k": {v1}})
			grpc.SendHeader(ctx, metadata.MD{"k": {v2}, "x-bin": {b1}})
			grpc.SetTrailer(ctx, metadata.MD{"t": {t1}})
			grpc.SetTrailer(ctx, metadata.MD{"t": {t2}})
		default:
			grpc.SetTrailer(ctx, metadata.MD{"t": {t1}})
			grpc.SetTrailer(ctx, metadata.MD{"t": {t2}})
			grpc.SetHeader(ctx, metadata.MD{"k": {v1}})
			grpc.SendHeader(ctx, metadata.MD{"k": {v2}, "x-bin": {b1}})
		}
		if mode == 3 {
			return nil, context.DeadlineExceeded
		}
		return &testproto.Msg{Value: in.GetValue() + 1}, nil
	}
	srv := zzNewServer("srv", impl, nil)
	conn := newZZConn()
	conn.wch = make(chan *Rpc, 4)
	go func() {
		vfHarnessGoroutine()
		srv.Serve(context.Background(), conn)
	}()
	var resp *Rpc
	go func() {
		conn.in <- &Rpc{Id: 1, Header: zzReqHdr("Unary"), Body: zzBody(5)}
		resp = <-conn.wch
	}()
	vfAtQuiescence(func() {
		vfAssert(resp != nil && resp.Header != nil && resp.Trailer != nil, "one-response-envelope-with-header-and-trailer")
		if resp == nil || resp.Header == nil || resp.Trailer == nil {
			return
		}
		var ks, bins, ts []string
		for _, kv := range resp.Header.Headers {
			switch kv.Key {
			case "k":
				ks = append(ks, kv.Value)
			case "x-bin":
				bins = append(bins, kv.Value)
			}
		}
		for _, kv := range resp.Trailer.Metadata {
			if kv.Key == "t" {
				ts = append(ts, kv.Value)
			}
		}
		vfAssert(len(ks) == 2 && ks[0] == v1 && ks[1] == v2, "unary-header-values-in-call-order")
		vfAssert(len(bins) == 1, "unary-binary-header-present")
		vfAssert(len(ts) == 2 && ts[0] == t1 && ts[1] == t2, "unary-trailer-values-in-call-order")
		vfAssert((resp.Status != nil && resp.Status.Code != 0) == (mode == 3), "status-matches-the-handlers-outcome")
		vfReach("checked")
	})
}
