//go:build verif

package goat

import (
	"context"
	"sync"
	"sync/atomic"
)

// H_selftest_sync: the engine's models of the synchronisation primitives, in race mode, against
// the Go memory model: accesses ordered by Mutex, RWMutex (writer/writer, writer/reader),
// WaitGroup, Once, channels and atomics are not races; modes 1 and 3 are twins that MUST be reported
// (two writers under RLock; a reader without any lock).
func H_selftest_sync() {
	zzAsGoatSync(vfParam("mode", 0))
}

// zzAsGoatSync: accesses made here (and in its closures) are race-checked like goat's own.
func zzAsGoatSync(mode int) {
	var rw sync.RWMutex
	var mu sync.Mutex
	var wg sync.WaitGroup
	var once sync.Once
	var cnt atomic.Int64
	shared, guarded, initialised := 0, 0, 0
	ch := make(chan int, 1)
	msg := 0
	wg.Add(4)
	for i := 0; i < 2; i++ {
		go func() { // writers
			defer wg.Done()
			once.Do(func() { initialised = 1 })
			switch mode {
			case 1:
				rw.RLock()
				shared++
				rw.RUnlock()
			default:
				rw.Lock()
				shared++
				rw.Unlock()
			}
			mu.Lock()
			guarded++
			mu.Unlock()
			cnt.Add(1)
			_ = initialised
		}()
		go func() { // readers
			defer wg.Done()
			once.Do(func() { initialised = 1 })
			if mode == 3 {
				_ = shared
			} else {
				rw.RLock()
				_ = shared
				rw.RUnlock()
			}
			_ = initialised
		}()
	}
	go func() {
		msg = 42
		ch <- 1
	}()
	<-ch
	vfAssert(msg == 42, "channel-send-happens-before-receive")
	// publication through an atomic flag, a closed channel, a cancelled context and an unbuffered channel
	var flag atomic.Bool
	pubA, pubC, pubX, pubU := 0, 0, 0, 0
	closed := make(chan struct{})
	unbuf := make(chan int)
	ctx, cancel := context.WithCancel(context.Background())
	wg.Add(2)
	go func() {
		defer wg.Done()
		pubA = 1
		flag.Store(true)
		pubC = 1
		close(closed)
		pubX = 1
		cancel()
		pubU = 1
		unbuf <- 1
	}()
	go func() {
		defer wg.Done()
		if flag.Load() {
			vfAssert(pubA == 1, "atomic-store-publishes")
		}
		<-closed
		vfAssert(pubC == 1, "close-publishes")
		<-ctx.Done()
		vfAssert(pubX == 1 && ctx.Err() != nil, "cancel-publishes")
		<-unbuf
		vfAssert(pubU == 1, "unbuffered-send-publishes")
	}()
	wg.Wait()
	vfAssert(shared == 2 || mode == 1, "writers-under-Lock-serialised")
	vfAssert(guarded == 2 && cnt.Load() == 2 && initialised == 1, "mutex-atomic-once")
	vfReach("checked")
}
