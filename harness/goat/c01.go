//go:build verif

package goat

import (
	"context"

	"github.com/avos-io/goat/gen/testproto"
)

// H_C01_direct: N concurrent unary callers on one connection to a real Server over the
// by-reference channel transport; every caller must get f(its own request).
func H_C01_direct() {
	n := vfParam("callers", 2)
	k := vfInt32("k")
	impl := &zzImpl{}
	impl.unary = func(ctx context.Context, in *testproto.Msg) (*testproto.Msg, error) {
		return &testproto.Msg{Value: in.GetValue() ^ k}, nil
	}
	srv := zzNewServer("srv", impl, nil)
	crw, srw := zzPair()
	go func() { srv.Serve(context.Background(), srw) }()
	cc := NewClientConn(crw, "cli", "srv")
	done := make([]bool, n)
	errs := make([]error, n)
	reqs := make([]int32, n)
	reps := make([]int32, n)
	for i := 0; i < n; i++ {
		i := i
		reqs[i] = vfInt32("req")
		go func() {
			out := &testproto.Msg{}
			errs[i] = cc.Invoke(context.Background(), "/"+zzSvcName+"/Unary", &testproto.Msg{Value: reqs[i]}, out)
			reps[i] = out.GetValue()
			done[i] = true
		}()
	}
	vfAtQuiescence(func() {
		for i := 0; i < n; i++ {
			vfAssert(done[i], "caller-returned")
			if done[i] {
				vfAssert(errs[i] == nil, "caller-succeeded")
				vfAssert(reps[i] == reqs[i]^k, "reply-is-handlers-reply-to-own-request")
			}
		}
		vfAssert(impl.ncalls == n, "handler-ran-exactly-once-per-call")
		vfReach("quiescent")
	})
}
