//go:build verif

package goat

import (
	"context"

	"github.com/avos-io/goat/gen/testproto"
	"google.golang.org/protobuf/proto"
)

// H_C01_direct: N concurrent unary callers on one connection to a real Server over the
// by-reference channel transport; every caller must get f(its own request).
func H_C01_direct() {
	n := vfParam("callers", 2)
	k := vfInt32("k")
	impl := &zzImpl{}
	impl.unary = func(ctx context.Context, in *testproto.Msg) (*testproto.Msg, error) {
		return &testproto.Msg{Value: in.GetValue() ^ k}, nil
	}
	srv := zzNewServer("srv", impl, nil)
	crw, srw := zzPair()
	go func() { srv.Serve(context.Background(), srw) }()
	cc := NewClientConn(crw, "cli", "srv")
	done := make([]bool, n)
	errs := make([]error, n)
	reqs := make([]int32, n)
	reps := make([]int32, n)
	for i := 0; i < n; i++ {
		i := i
		reqs[i] = vfInt32("req")
		go func() {
			out := &testproto.Msg{Value: 0x5eed} // a reply object the caller has used before: it must be overwritten
			errs[i] = cc.Invoke(context.Background(), "/"+zzSvcName+"/Unary", &testproto.Msg{Value: reqs[i]}, out)
			reps[i] = out.GetValue()
			done[i] = true
		}()
	}
	vfAtQuiescence(func() {
		for i := 0; i < n; i++ {
			vfAssert(done[i], "caller-returned")
			if done[i] {
				vfAssert(errs[i] == nil, "caller-succeeded")
				vfAssert(reps[i] == reqs[i]^k, "reply-is-handlers-reply-to-own-request")
			}
		}
		vfAssert(impl.ncalls == n, "handler-ran-exactly-once-per-call")
		vfReach("quiescent")
	})
}

// H_C01_topo: one or two unary calls through the shipped topologies.
// topo 1: client - shared channel - Demux (keyed by source) - one Serve per logical connection.
// topo 2: client - Proxy - server (both attached to the proxy over channel transports).
// topo 3: serialising transport: every envelope crosses the wire as Unmarshal(Marshal(x)).
func H_C01_topo() {
	topo := vfParam("topo", 1)
	n := vfParam("callers", 1)
	k := vfInt32("k")
	impl := &zzImpl{}
	impl.unary = func(ctx context.Context, in *testproto.Msg) (*testproto.Msg, error) {
		return &testproto.Msg{Value: in.GetValue() ^ k}, nil
	}
	srv := zzNewServer("srv", impl, nil)
	tcap := vfParam("tcap", 1)
	c2x := make(chan *Rpc, tcap)
	x2c := make(chan *Rpc, tcap)
	var crw RpcReadWriter = NewGoatOverChannel(x2c, c2x)
	switch topo {
	case 1:
		shared := NewGoatOverChannel(c2x, x2c)
		d := NewDemux(context.Background(), shared, func(r *Rpc) string { return r.GetHeader().GetSource() }, func(rw RpcReadWriter) {
			vfHarnessGoroutine()
			srv.Serve(context.Background(), rw)
		})
		go func() {
			vfHarnessGoroutine()
			d.Run()
		}()
	case 2:
		s2x := make(chan *Rpc, tcap)
		x2s := make(chan *Rpc, tcap)
		p := NewProxy(context.Background(), "proxy", func(id string) (RpcReadWriter, error) { return nil, errNoDial }, nil, nil)
		p.AddClient("cli", NewGoatOverChannel(c2x, x2c))
		p.AddClient("srv", NewGoatOverChannel(s2x, x2s))
		go func() {
			vfHarnessGoroutine()
			p.Serve()
		}()
		go func() {
			vfHarnessGoroutine()
			srv.Serve(context.Background(), NewGoatOverChannel(x2s, s2x))
		}()
	default:
		crw = &zzSerialising{rw: crw}
		go func() {
			vfHarnessGoroutine()
			srv.Serve(context.Background(), &zzSerialising{rw: NewGoatOverChannel(c2x, x2c)})
		}()
	}
	cc := NewClientConn(crw, "cli", "srv")
	done := make([]bool, n)
	errs := make([]error, n)
	reqs := make([]int32, n)
	reps := make([]int32, n)
	for i := 0; i < n; i++ {
		i := i
		reqs[i] = vfInt32("req")
		go func() {
			out := &testproto.Msg{}
			errs[i] = cc.Invoke(context.Background(), "/"+zzSvcName+"/Unary", &testproto.Msg{Value: reqs[i]}, out)
			reps[i] = out.GetValue()
			done[i] = true
		}()
	}
	vfAtQuiescence(func() {
		for i := 0; i < n; i++ {
			vfAssert(done[i], "caller-returned")
			if done[i] {
				vfAssert(errs[i] == nil, "caller-succeeded")
				vfAssert(reps[i] == reqs[i]^k, "reply-is-handlers-reply-to-own-request")
			}
		}
		vfAssert(impl.ncalls == n, "handler-ran-exactly-once-per-call")
		vfReach("quiescent")
	})
}

var errNoDial = errNoDialT{}

type errNoDialT struct{}

func (errNoDialT) Error() string { return "no dial" }

// zzSerialising passes every envelope through proto.Marshal / proto.Unmarshal, like the
// WebSocket and HTTP transports do (a fresh copy with protobuf's normalisation arrives).
type zzSerialising struct{ rw RpcReadWriter }

func (z *zzSerialising) Read(ctx context.Context) (*Rpc, error) { return z.rw.Read(ctx) }
func (z *zzSerialising) Write(ctx context.Context, r *Rpc) error {
	b, err := proto.Marshal(r)
	if err != nil {
		return err
	}
	var c Rpc
	if err := proto.Unmarshal(b, &c); err != nil {
		return err
	}
	return z.rw.Write(ctx, &c)
}
