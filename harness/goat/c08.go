//go:build verif

package goat

import (
	"context"
	"time"

	"github.com/avos-io/goat/gen/goatorepo"
	"google.golang.org/grpc/metadata"
)

// H_C08_client: client encoding of a symbolic deadline and its interpretation by the
// real server side (format/parse agreement and the end-to-end deadline relation).
func H_C08_client() {
	const ms = int64(time.Millisecond)
	t0 := time.Now()
	delta := vfInt64("delta")
	vfAssume(delta >= -(1 << 40))        // -18 min ..
	vfAssume(delta <= 36000000000000000) // .. 10^4 h
	dl := t0.Add(time.Duration(delta))
	cctx, ccancel := context.WithDeadline(context.Background(), dl)
	defer ccancel()
	t1 := time.Now() // instant at which the client encodes the deadline
	vfFreezeClock(true)
	hs := headersFromContext(cctx)
	vfFreezeClock(false)
	remaining := int64(dl.Sub(t1))
	vfAssert(len(hs) == 1, "exactly-one-timeout-header")
	vfAssert(hs[0].Key == "GRPC-Timeout", "timeout-header-key")
	d, ok := parseGrpcTimeout(hs[0].Value)
	vfAssert(ok, "client-timeout-value-accepted-by-parser")
	vfAssert(int64(d) >= ms, "conveyed-timeout-at-least-1ms")
	if remaining >= ms {
		vfAssert(int64(d) <= remaining, "millisecond-floor-not-rounded-up")
		vfAssert(int64(d) > remaining-ms, "millisecond-floor-loses-less-than-1ms")
		vfReach("future-deadline")
	} else {
		vfAssert(int64(d) == ms, "expired-or-close-deadline-conveyed-as-1ms")
		vfReach("expired-deadline")
	}
	// server side, after an arbitrary transit time
	t2 := time.Now()
	vfFreezeClock(true)
	hctx, hcancel, err := contextFromHeaders(context.Background(), &goatorepo.RequestHeader{Headers: hs})
	vfFreezeClock(false)
	defer hcancel()
	vfAssert(err == nil, "server-accepts-header")
	hdl, has := hctx.Deadline()
	vfAssert(has, "handler-has-deadline")
	vfAssert(hdl.Sub(t2) == d, "handler-deadline-is-arrival-plus-conveyed-timeout")
	if remaining >= ms {
		vfAssert(hdl.Sub(dl) > -time.Millisecond, "handler-deadline-not-earlier-than-callers-minus-1ms")
		vfAssert(hdl.Sub(dl) <= t2.Sub(t1), "handler-deadline-not-later-than-callers-plus-transit")
	}
}

func zzMax64(a, b int64) int64 {
	if a > b {
		return a
	}
	return b
}

// H_C08_nodeadline: no caller deadline => no header, and no handler deadline.
func H_C08_nodeadline() {
	hs := headersFromContext(context.Background())
	vfAssert(len(hs) == 0, "no-header-without-deadline")
	hctx, hcancel, err := contextFromHeaders(context.Background(), &goatorepo.RequestHeader{Headers: hs})
	defer hcancel()
	vfAssert(err == nil, "no-error")
	_, has := hctx.Deadline()
	vfAssert(!has, "handler-has-no-deadline")
	vfReach("done")
}

// H_C04_request_md: metadata attached to the caller's outgoing context (with and without a
// deadline) goes through headersFromContext and contextFromHeaders and is what the handler's
// incoming context carries: same keys, values in order, -bin values byte-exact.
func H_C04_request_md() {
	withDeadline := vfParam("deadline", 1)
	v1, v2, b1 := vfString("v1", 2), vfString("v2", 1), vfString("b1", 2)
	ctx := metadata.AppendToOutgoingContext(context.Background(), "k", v1, "k", v2, "x-bin", b1)
	if withDeadline == 1 {
		var cancel context.CancelFunc
		ctx, cancel = context.WithTimeout(ctx, 5*time.Second)
		defer cancel()
	}
	hs := headersFromContext(ctx)
	hctx, hcancel, err := contextFromHeaders(context.Background(), &goatorepo.RequestHeader{Headers: hs})
	defer hcancel()
	vfAssert(err == nil, "handler-context-built")
	md, ok := metadata.FromIncomingContext(hctx)
	vfAssert(ok, "handler-sees-incoming-metadata")
	vfAssert(len(md["k"]) == 2 && md["k"][0] == v1 && md["k"][1] == v2, "text-values-in-order")
	vfAssert(len(md["x-bin"]) == 1 && md["x-bin"][0] == b1, "binary-value-byte-exact")
	_, has := hctx.Deadline()
	vfAssert(has == (withDeadline == 1), "deadline-iff-callers")
	vfReach("checked")
}
