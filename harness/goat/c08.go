//go:build verif

package goat

func H_smoke() {
	s := vfString("s", vfParam("n", 3))
	d, ok := parseGrpcTimeout(s)
	if ok {
		vfReach("accepted")
		vfAssert(d >= 0, "nonneg")
	}
}
