//go:build verif

package goat

import (
	"context"
	"errors"

	"github.com/avos-io/goat/gen/goatorepo"
	"github.com/avos-io/goat/gen/testproto"
	"google.golang.org/grpc"
)

// H_C10_end: a server connection ends (read failure / write failure / Stop) while u unary
// and s streaming handlers are in flight. Handlers are cooperative (they return once
// their context is done). fault: 0 read error, 1 write error on the next response,
// 2 Server.Stop. hmode (streaming handler): 0 blocked in RecvMsg, 1 blocked on ctx.Done,
// 2 sending responses in a loop until an error. The fault races with everything else.
func H_C10_end() {
	u := vfParam("u", 1)
	ns := vfParam("s", 0)
	fault := vfParam("fault", 0)
	hmode := vfParam("hmode", 0)
	orphan := vfParam("orphan", 0) // stray bodies for never-opened streams first (each refused with a reset)
	rst := vfParam("rst", 0) // the peer resets each stream it opened (the handler is then slow to return)
	impl := &zzImpl{}
	unaryStarted, unaryReturned, unaryCtxDoneAtReturn := 0, 0, 0
	var unaryCtxs []context.Context
	impl.unary = func(ctx context.Context, in *testproto.Msg) (*testproto.Msg, error) {
		impl.mu.vfLock()
		unaryStarted++
		unaryCtxs = append(unaryCtxs, ctx)
		impl.mu.vfUnlock()
		<-ctx.Done() // cooperative: waits for cancellation only
		impl.mu.vfLock()
		unaryReturned++
		if ctx.Err() != nil {
			unaryCtxDoneAtReturn++
		}
		impl.mu.vfUnlock()
		return nil, ctx.Err()
	}
	strStarted, strReturned := 0, 0
	var strCtxs []context.Context
	sh := func(srv any, stream grpc.ServerStream) error {
		impl.mu.vfLock()
		strStarted++
		strCtxs = append(strCtxs, stream.Context())
		impl.mu.vfUnlock()
		defer func() {
			if rst == 1 {
				// a handler may take its time between noticing the cancellation and returning
				vfYield()
				vfYield()
			}
			impl.mu.vfLock()
			strReturned++
			impl.mu.vfUnlock()
		}()
		switch hmode {
		case 0:
			in := new(testproto.Msg)
			return stream.RecvMsg(in)
		case 1:
			<-stream.Context().Done()
			return stream.Context().Err()
		default:
			for i := 0; i < 3; i++ {
				if err := stream.SendMsg(&testproto.Msg{Value: 1}); err != nil {
					return err
				}
			}
			<-stream.Context().Done()
			return stream.Context().Err()
		}
	}
	srv := zzNewServer("srv", impl, map[string]grpc.StreamHandler{"BidiStream": sh})
	conn := newZZConn()
	serveReturned := false
	strReturnedAtServeReturn, strStartedAtServeReturn := -1, -1
	unaryCtxLiveAtServeReturn := 0
	go func() {
		srv.Serve(context.Background(), conn)
		impl.mu.vfLock()
		strReturnedAtServeReturn, strStartedAtServeReturn = strReturned, strStarted
		for _, c := range unaryCtxs {
			if c.Err() == nil {
				unaryCtxLiveAtServeReturn++
			}
		}
		impl.mu.vfUnlock()
		serveReturned = true
	}()
	go func() {
		id := uint64(1)
		for i := 0; i < orphan; i++ {
			// a body for a stream that was never opened: the server refuses it with a reset of its own
			conn.in <- &Rpc{Id: 70 + uint64(i), Header: zzReqHdr("BidiStream"), Body: zzBody(1)}
		}
		for i := 0; i < u; i++ {
			uh := zzReqHdr("Unary")
			if vfParam("tmo", 0) == 1 {
				// the call carries its own (far) deadline: the end of the connection must still cancel it
				uh.Headers = []*goatorepo.KeyValue{{Key: "grpc-timeout", Value: "1H"}}
			}
			conn.in <- &Rpc{Id: id, Header: uh, Body: zzBody(5)}
			id++
		}
		first := id
		for i := 0; i < ns; i++ {
			conn.in <- &Rpc{Id: id, Header: zzReqHdr("BidiStream")}
			id++
		}
		if rst == 1 {
			for i := 0; i < ns; i++ {
				conn.in <- &Rpc{Id: first + uint64(i), Header: zzReqHdr("BidiStream"), Reset_: &goatorepo.Reset{Type: "RST_STREAM"}}
			}
		}
	}()
	go func() {
		switch fault {
		case 0:
			conn.rerr <- errors.New("connection reset")
		case 1:
			vfYield()
			conn.mu.vfLock()
			conn.failWrite = errors.New("broken pipe")
			conn.mu.vfUnlock()
			// make sure at least one write happens after the failure was armed: a unary
			// request whose handler returns at once is not available, so also end the
			// read side once the write has failed or nothing is left to write.
			vfYield()
			conn.rerr <- errors.New("connection reset after write failure")
		default:
			srv.Stop()
		}
	}()
	vfAtQuiescence(func() {
		vfAssert(serveReturned, "Serve-returns")
		if !serveReturned {
			return
		}
		vfAssert(strReturnedAtServeReturn == strStartedAtServeReturn, "streaming-handlers-finished-when-Serve-returns")
		vfAssert(unaryCtxLiveAtServeReturn == 0, "unary-handler-contexts-cancelled-when-Serve-returns")
		for _, c := range strCtxs {
			vfAssert(c.Err() != nil, "stream-handler-context-cancelled")
		}
		vfAssert(unaryReturned == unaryStarted, "unary-handlers-return")
		vfAssert(strReturned == strStarted, "stream-handlers-return")
		vfAssert(vfCensus() == 0, "no-goroutine-of-the-connection-left")
		vfReach("checked")
	})
}
