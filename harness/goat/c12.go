//go:build verif

package goat

import (
	"context"
	"errors"
	"io"

	"github.com/avos-io/goat/gen/goatorepo"
	"github.com/avos-io/goat/gen/testproto"
	"google.golang.org/grpc"
)

const zzNumShapes = 17

// zzEnvelope builds a request-side envelope of the given shape for stream id.
func zzEnvelope(shape int, id uint64) *Rpc {
	hdr := func(m string) *RpcHeader { return zzReqHdr(m) }
	switch shape {
	case 0:
		return &Rpc{Id: id, Body: zzBody(3)}
	case 1:
		return &Rpc{Id: id, Header: &RpcHeader{Method: "nomethod", Source: "cli", Destination: "srv"}, Body: zzBody(3)}
	case 2:
		return &Rpc{Id: id, Header: &RpcHeader{Method: "/other.Service/Unary", Source: "cli", Destination: "srv"}, Body: zzBody(3)}
	case 3:
		return &Rpc{Id: id, Header: hdr("NoSuchMethod"), Body: zzBody(3)}
	case 4:
		h := hdr("Unary")
		h.Destination = "someone-else"
		return &Rpc{Id: id, Header: h, Body: zzBody(3)}
	case 5:
		return &Rpc{Id: id, Header: hdr("Unary"), Body: zzBody(3)}
	case 6:
		h := hdr("Unary")
		h.Headers = []*goatorepo.KeyValue{{Key: "x-bin", Value: "!!not base64!!"}}
		return &Rpc{Id: id, Header: h, Body: zzBody(3)}
	case 7:
		return &Rpc{Id: id, Header: hdr("BidiStream")}
	case 8: // a stream open whose metadata cannot be decoded, with a valid timeout beside it
		h := hdr("BidiStream")
		h.Headers = []*goatorepo.KeyValue{{Key: "grpc-timeout", Value: "2S"}, {Key: "x-bin", Value: "!!not base64!!"}}
		return &Rpc{Id: id, Header: h}
	case 9:
		return &Rpc{Id: id, Header: hdr("BidiStream"), Body: zzBody(4)}
	case 10:
		return &Rpc{Id: id, Header: hdr("BidiStream"), Status: &goatorepo.ResponseStatus{Code: 0}, Trailer: &goatorepo.Trailer{}}
	case 11:
		return &Rpc{Id: id, Header: hdr("BidiStream"), Reset_: &goatorepo.Reset{Type: "RST_STREAM"}}
	case 12:
		return &Rpc{Id: id, Header: hdr("BidiStream"), Reset_: &goatorepo.Reset{Type: "SOMETHING_ELSE"}}
	case 13:
		h := hdr("BidiStream")
		h.Destination = "someone-else"
		return &Rpc{Id: id, Header: h, Body: zzBody(4)}
	case 14: // a message whose encoding is empty (zero-valued message): still a body, not an open
		return &Rpc{Id: id, Header: hdr("BidiStream"), Body: &goatorepo.Body{}}
	case 15: // unary request with a malformed timeout header (must be ignored, not misread)
		h := hdr("Unary")
		h.Headers = []*goatorepo.KeyValue{{Key: "GRPC-Timeout", Value: "10x"}}
		return &Rpc{Id: id, Header: h, Body: zzBody(3)}
	default: // stream open with a malformed timeout header
		h := hdr("BidiStream")
		h.Headers = []*goatorepo.KeyValue{{Key: "grpc-timeout", Value: "soon"}}
		return &Rpc{Id: id, Header: h}
	}
}

// H_C12_seq: an arbitrary sequence of L envelopes (shape and id chosen symbolically per
// envelope) followed by a well-formed probe request and a clean end of the connection.
func H_C12_seq() {
	L := vfParam("L", 2)
	first := vfParam("first", -1) // optionally fixes the first shape (job splitting)
	second := vfParam("second", -1)
	third := vfParam("third", -1)
	alpha := vfParam("alpha", 0) // 1: free positions range over a 9-shape sub-alphabet; 2: over 4 shapes
	oneid := vfParam("oneid", 0) // every envelope uses stream id 1
	lazy := vfParam("lazy", 0)   // streaming handler returns at once without reading its input
	impl := &zzImpl{}
	impl.unary = func(ctx context.Context, in *testproto.Msg) (*testproto.Msg, error) {
		return &testproto.Msg{Value: in.GetValue() + 1}, nil
	}
	strStarted, strReturned := 0, 0
	sh := func(srv any, stream grpc.ServerStream) error {
		impl.mu.vfLock()
		strStarted++
		impl.mu.vfUnlock()
		defer func() {
			impl.mu.vfLock()
			strReturned++
			impl.mu.vfUnlock()
		}()
		if lazy == 1 {
			return nil
		}
		for {
			in := new(testproto.Msg)
			err := stream.RecvMsg(in)
			if err == io.EOF {
				return nil
			}
			if err != nil {
				return err
			}
		}
	}
	srv := zzNewServer("srv", impl, map[string]grpc.StreamHandler{"BidiStream": sh})
	conn := newZZConn()
	conn.wch = make(chan *Rpc, 16)
	serveReturned := false
	go func() {
		srv.Serve(context.Background(), conn)
		serveReturned = true
	}()
	validUnary, opens, orphanBodies := 0, 0, 0
	opened := map[uint64]bool{}
	shapes := make([]int, L)
	ids := make([]uint64, L)
	for i := 0; i < L; i++ {
		if i == 0 && first >= 0 {
			shapes[i] = first
		} else if i == 1 && second >= 0 {
			shapes[i] = second
		} else if i == 2 && third >= 0 {
			shapes[i] = third
		} else if alpha == 1 {
			// reduced alphabet for the free positions of long sequences: headerless, valid unary, unary
			// with bad metadata, stream open, open+body, trailer, reset, empty body, open with bad timeout
			shapes[i] = []int{0, 5, 6, 7, 9, 10, 11, 14, 16}[vfChoice("shape", 9)]
		} else if alpha == 2 {
			// smallest alphabet (after an expensive first envelope): valid unary, stream open, body, reset
			shapes[i] = []int{5, 7, 9, 11}[vfChoice("shape", 4)]
		} else {
			shapes[i] = vfChoice("shape", zzNumShapes)
		}
		if oneid == 1 {
			ids[i] = 1
		} else {
			ids[i] = uint64(1 + vfChoice("id", 2))
		}
		switch shapes[i] {
		case 5, 15:
			validUnary++
		case 7, 16:
			opens++
			opened[ids[i]] = true
		case 9, 14:
			if !opened[ids[i]] {
				orphanBodies++
			}
		}
	}
	scriptDone := false
	go func() {
		for i := 0; i < L; i++ {
			conn.in <- zzEnvelope(shapes[i], ids[i])
		}
		conn.in <- &Rpc{Id: 9, Header: zzReqHdr("Unary"), Body: zzBody(7)}
		// wait for the probe's reply, then end the connection
		for {
			w := <-conn.wch
			if w.Id == 9 {
				break
			}
		}
		scriptDone = true
		conn.rerr <- errors.New("EOF")
	}()
	vfAtQuiescence(func() {
		vfAssert(scriptDone, "probe-answered-server-kept-serving")
		if !scriptDone {
			return
		}
		vfAssert(serveReturned, "Serve-returns-at-end-of-connection")
		vfAssert(impl.ncalls == validUnary+1, "unary-handler-runs-exactly-for-wellformed-requests-to-own-name")
		vfAssert(strStarted <= opens, "stream-handlers-start-only-for-wellformed-opens")
		vfAssert(strReturned == strStarted, "stream-handlers-finish")
		resets := 0
		probeOK := false
		foreign := false // an envelope addressed to another name was among the requests
		for i := 0; i < L; i++ {
			if shapes[i] == 4 || shapes[i] == 13 {
				foreign = true
			}
		}
		for _, w := range conn.written() {
			if w.Header != nil && !foreign {
				// whatever the server answers - replies, error replies to malformed requests, resets -
				// travels back to the requester under the server's own name (seeded change C06g)
				vfAssert(w.Header.Source == "srv" && w.Header.Destination == "cli", "every-response-swaps-source-and-destination")
			}
			if w.Reset_ != nil {
				resets++
				vfAssert(w.Id == 1 || w.Id == 2, "reset-carries-the-offending-id")
				vfAssert(w.Header != nil && w.Header.Source == "srv" && w.Header.Destination == "cli", "reset-swaps-source-and-destination")
			}
			if w.Id == 9 {
				probeOK = w.Body != nil && len(w.Body.Data) == 5 && w.Body.Data[1] == 8 && w.Status == nil
			}
		}
		vfAssert(probeOK, "probe-reply-correct")
		vfAssert(resets >= orphanBodies, "body-for-unknown-stream-answered-with-reset")
		vfAssert(vfCensus() == 0, "nothing-left-running")
		vfReach("checked")
	})
}
