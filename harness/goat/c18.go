//go:build verif

package goat

import (
	"context"
)

// H_C18_demux: a Demux over a scripted shared transport. The peer delivers L envelopes whose
// keys are chosen symbolically among K keys; one consumer per logical connection reads
// everything it is given and writes W envelopes back. Faults: `cancelKey`=1 cancels key 0 at
// an arbitrary point, `stop`=1 stops the demux at an arbitrary point.
func H_C18_demux() {
	K := vfParam("K", 2)
	L := vfParam("L", 2)
	W := vfParam("W", 1)
	cancelKey := vfParam("cancelKey", 0)
	stop := vfParam("stop", 0)
	slow := vfParam("slow", 0) // consumers do not read at all (hand-off blocks)
	shared := newZZConn()
	keys := make([]string, L)
	kidx := make([]int, L)
	for i := 0; i < L; i++ {
		kidx[i] = vfChoice("key", K)
		keys[i] = string([]byte{'k', byte('0' + kidx[i])})
	}
	var mu vfMutex
	announced := map[int]int{}
	got := map[int][]uint64{}
	readErrs, writeErrs := 0, 0
	onNew := func(rw RpcReadWriter) {
		vfHarnessGoroutine()
		first := true
		ki := -1
		for {
			if slow == 1 {
				<-make(chan struct{})
			}
			r, err := rw.Read(context.Background())
			if err != nil {
				mu.vfLock()
				readErrs++
				mu.vfUnlock()
				// a write on a cancelled connection must fail, not block or crash
				werr := rw.Write(context.Background(), &Rpc{Id: 999})
				if werr != nil {
					mu.vfLock()
					writeErrs++
					mu.vfUnlock()
				}
				return
			}
			k := int(r.Header.Source[1] - '0')
			mu.vfLock()
			if first {
				announced[k]++
				first = false
				ki = k
			}
			vfAssert(k == ki, "logical-connection-sees-only-its-own-key")
			got[k] = append(got[k], r.Id)
			mu.vfUnlock()
			for j := 0; j < W; j++ {
				if err := rw.Write(context.Background(), &Rpc{Id: r.Id*10 + uint64(j), Header: &RpcHeader{Source: "srv", Destination: r.Header.Source}}); err != nil {
					mu.vfLock()
					writeErrs++
					mu.vfUnlock()
				}
			}
		}
	}
	d := NewDemux(context.Background(), shared, func(r *Rpc) string { return r.Header.Source }, onNew)
	runReturned := false
	go func() {
		vfHarnessGoroutine()
		d.Run()
		runReturned = true
	}()
	delivered := 0
	go func() {
		for i := 0; i < L; i++ {
			shared.in <- &Rpc{Id: uint64(i + 1), Header: &RpcHeader{Source: keys[i], Destination: "srv"}}
			delivered++
		}
	}()
	if cancelKey == 1 {
		go func() { d.Cancel("k0") }()
	}
	if stop == 1 {
		go func() { d.Stop() }()
	}
	vfAtQuiescence(func() {
		if stop == 1 {
			vfAssert(runReturned, "Stop-ends-the-run-loop")
		}
		if cancelKey == 0 && stop == 0 && slow == 0 {
			vfAssert(delivered == L, "every-envelope-read-from-the-shared-transport")
			// per key: exactly the envelopes of that key in arrival order, once
			for k := 0; k < K; k++ {
				var want []uint64
				for i := 0; i < L; i++ {
					if kidx[i] == k {
						want = append(want, uint64(i+1))
					}
				}
				vfAssert(len(got[k]) == len(want), "each-envelope-handed-over-exactly-once")
				for i := 0; i < len(want) && i < len(got[k]); i++ {
					vfAssert(got[k][i] == want[i], "per-key-arrival-order-kept")
				}
				if len(want) > 0 {
					vfAssert(announced[k] == 1, "connection-announced-exactly-once-per-key")
				}
			}
			// every logical write appears unchanged exactly once on the shared transport
			w := shared.written()
			vfAssert(len(w) == L*W, "every-logical-write-reaches-the-shared-transport-once")
			for i := 0; i < L; i++ {
				for j := 0; j < W; j++ {
					n := 0
					for _, x := range w {
						if x.Id == uint64(i+1)*10+uint64(j) {
							n++
						}
					}
					vfAssert(n == 1, "written-envelope-present-once")
				}
			}
		}
		vfReach("checked")
	})
}

// H_C18_cancel_pending: an envelope for key A has been read off the shared transport but its
// logical connection's consumer never takes it; Cancel(A) arrives (at any point). Envelopes of
// another key must still be read, announced and delivered.
func H_C18_cancel_pending() {
	shared := newZZConn()
	var mu vfMutex
	nconn := 0
	gotB := false
	onNew := func(rw RpcReadWriter) {
		vfHarnessGoroutine()
		mu.vfLock()
		idx := nconn
		nconn++
		mu.vfUnlock()
		if idx == 0 {
			<-make(chan struct{}) // the first connection's consumer (key A) never reads
		}
		r, err := rw.Read(context.Background())
		if err == nil && r.Header.Source == "B" {
			mu.vfLock()
			gotB = true
			mu.vfUnlock()
		}
	}
	d := NewDemux(context.Background(), shared, func(r *Rpc) string { return r.Header.Source }, onNew)
	go func() {
		vfHarnessGoroutine()
		d.Run()
	}()
	sent := 0
	readA := make(chan struct{})
	go func() {
		shared.in <- &Rpc{Id: 1, Header: &RpcHeader{Source: "A"}}
		sent = 1
		close(readA) // the run loop has taken A's envelope off the shared transport
		shared.in <- &Rpc{Id: 2, Header: &RpcHeader{Source: "B"}}
		sent = 2
	}()
	go func() {
		<-readA
		// wait until the connection for A exists (Cancel before that is a no-op), then cancel at any point
		for {
			if vfMapHas(d, "conns.value", "A") != 0 { // -1 (names not on this tree): do not wait
				break
			}
			vfYield()
		}
		d.Cancel("A")
	}()
	vfAtQuiescence(func() {
		vfAssert(sent == 2, "run-loop-keeps-reading-after-Cancel-with-a-pending-envelope")
		vfAssert(gotB, "other-keys-still-delivered")
		vfReach("checked")
		d.Stop()
	})
}

// H_C18_reuse_after_cancel: a key is used, cancelled (possibly twice), then used again: the
// second use must create and announce a fresh logical connection and deliver the envelope;
// cancelling twice must not crash.
func H_C18_reuse_after_cancel() {
	twice := vfParam("twice", 0)
	shared := newZZConn()
	var mu vfMutex
	announced := 0
	var got []uint64
	var firstConn RpcReadWriter
	onNew := func(rw RpcReadWriter) {
		vfHarnessGoroutine()
		mu.vfLock()
		announced++
		if firstConn == nil {
			firstConn = rw
		}
		mu.vfUnlock()
		for {
			r, err := rw.Read(context.Background())
			if err != nil {
				return
			}
			mu.vfLock()
			got = append(got, r.Id)
			mu.vfUnlock()
		}
	}
	d := NewDemux(context.Background(), shared, func(r *Rpc) string { return r.Header.Source }, onNew)
	go func() {
		vfHarnessGoroutine()
		d.Run()
	}()
	done := false
	go func() {
		shared.in <- &Rpc{Id: 1, Header: &RpcHeader{Source: "A"}}
		// wait until envelope 1 has been consumed, then cancel the key and use it again
		for {
			mu.vfLock()
			n := len(got)
			mu.vfUnlock()
			if n == 1 {
				break
			}
			vfYield()
		}
		d.Cancel("A")
		if twice == 1 {
			d.Cancel("A")
		}
		// Cancel has returned: a write on the cancelled logical connection must fail (and put
		// nothing on the shared transport)
		werr := firstConn.Write(context.Background(), &Rpc{Id: 99})
		vfAssert(werr != nil, "write-on-a-cancelled-connection-fails")
		shared.in <- &Rpc{Id: 2, Header: &RpcHeader{Source: "A"}}
		done = true
	}()
	vfAtQuiescence(func() {
		vfAssert(done, "script-completes")
		vfAssert(len(got) == 2 && got[0] == 1 && got[1] == 2, "envelope-after-cancel-delivered-exactly-once-in-order")
		vfAssert(announced == 2, "key-reused-after-cancel-gets-a-fresh-announced-connection")
		for _, w := range shared.written() {
			vfAssert(w.Id != 99, "nothing-written-for-a-cancelled-key")
		}
		vfReach("checked")
		d.Stop()
	})
}

// H_C18_cancel_parked_write: the shared transport is congested (it accepts no write until a gate
// opens), the logical connection of key A has one write inside the transport and a second one
// parked behind it; Cancel("A") lands at any point, then the link clears. Both writers must
// return (the parked one with an error or a success, never blocking forever).
func H_C18_cancel_parked_write() {
	shared := &zzGated{zzConn: *newZZConn(), gate: make(chan struct{})}
	var connA RpcReadWriter
	got := make(chan struct{})
	onNew := func(rw RpcReadWriter) {
		vfHarnessGoroutine()
		connA = rw
		close(got)
	}
	d := NewDemux(context.Background(), shared, func(r *Rpc) string { return r.Header.Source }, onNew)
	go func() {
		vfHarnessGoroutine()
		d.Run()
	}()
	w1, w2 := false, false
	go func() {
		shared.in <- &Rpc{Id: 1, Header: &RpcHeader{Source: "A"}}
		<-got
		go func() {
			connA.Write(context.Background(), &Rpc{Id: 10, Header: &RpcHeader{Source: "srv", Destination: "A"}})
			w1 = true
		}()
		go func() {
			connA.Write(context.Background(), &Rpc{Id: 11, Header: &RpcHeader{Source: "srv", Destination: "A"}})
			w2 = true
		}()
		go func() {
			d.Cancel("A")
			close(shared.gate) // the link clears after the cancellation
		}()
	}()
	vfAtQuiescence(func() {
		vfAssert(w1 && w2, "writes-on-a-cancelled-connection-return")
		vfReach("checked")
		d.Stop()
	})
}

// H_C18_read_cancelled: an envelope for key A is on offer while the consumer's Read runs with a
// context that is (or becomes) done, then the consumer reads again with a live context. The envelope
// is handed over exactly once: either the first Read returned it, or it failed and the second Read
// gets it - a Read that reports an error has not consumed anything.
func H_C18_read_cancelled() {
	shared := newZZConn()
	var connA RpcReadWriter
	got := make(chan struct{})
	onNew := func(rw RpcReadWriter) {
		vfHarnessGoroutine()
		connA = rw
		close(got)
	}
	d := NewDemux(context.Background(), shared, func(r *Rpc) string { return r.Header.Source }, onNew)
	go func() {
		vfHarnessGoroutine()
		d.Run()
	}()
	delivered := 0
	finished := false
	go func() {
		shared.in <- &Rpc{Id: 7, Header: &RpcHeader{Source: "A"}}
	}()
	go func() {
		<-got
		ctx, cancel := context.WithCancel(context.Background())
		go func() { cancel() }()
		r1, err1 := connA.Read(ctx)
		if err1 == nil {
			vfAssert(r1 != nil && r1.Id == 7, "first-read-returns-the-envelope")
			delivered++
		} else {
			r2, err2 := connA.Read(context.Background())
			vfAssert(err2 == nil && r2 != nil && r2.Id == 7, "envelope-still-there-after-a-failed-read")
			delivered++
		}
		finished = true
	}()
	vfAtQuiescence(func() {
		vfAssert(finished && delivered == 1, "envelope-handed-over-exactly-once")
		vfReach("checked")
		d.Stop()
	})
}
