//go:build verif

package goat

import (
	"context"
	"errors"
	"io"

	"github.com/avos-io/goat/gen/goatorepo"
	"github.com/avos-io/goat/gen/testproto"
	"google.golang.org/grpc"
	"google.golang.org/grpc/metadata"
)

type zzTraceKey struct{ i int }

func zzBody32(v int32) *goatorepo.Body {
	x := uint32(v)
	return &goatorepo.Body{Data: []byte{8, byte(x), byte(x >> 8), byte(x >> 16), byte(x >> 24)}}
}

func zzDecodeBody(b []byte) int32 {
	if len(b) != 5 {
		return 0
	}
	return int32(uint32(b[1]) | uint32(b[2])<<8 | uint32(b[3])<<16 | uint32(b[4])<<24)
}

// H_C20_stats_e2e: client and server each with H recording stats handlers; one RPC of kind
// `kind` (0 unary, 1 bidi stream) with outcome `outcome` (0 ok, 1 handler error); then the
// connection is closed. Begin/End pairing per handler and ConnBegin/ConnEnd on the server.
func H_C20_stats_e2e() {
	H := vfParam("H", 1)
	kind := vfParam("kind", 0)
	outcome := vfParam("outcome", 0)
	var csh, ssh []*zzRecStats
	var copts []DialOption
	var sopts []ServerOption
	for i := 0; i < H; i++ {
		c, s := newZZRecStats(), newZZRecStats()
		csh, ssh = append(csh, c), append(ssh, s)
		copts = append(copts, WithStatsHandler(c))
		sopts = append(sopts, StatsHandler(s))
	}
	var herr error
	if outcome == 1 {
		herr = errors.New("handler failed")
	}
	impl := &zzImpl{}
	impl.unary = func(ctx context.Context, in *testproto.Msg) (*testproto.Msg, error) {
		if herr != nil {
			return nil, herr
		}
		return &testproto.Msg{Value: in.GetValue() + 1}, nil
	}
	late := vfParam("late", 0) // the handler returns at once; the caller's zero-valued message and half-close arrive around/after that
	sh := func(srv any, stream grpc.ServerStream) error {
		if late == 1 {
			return herr
		}
		for {
			in := new(testproto.Msg)
			err := stream.RecvMsg(in)
			if err == io.EOF {
				return herr
			}
			if err != nil {
				return err
			}
			if err := stream.SendMsg(in); err != nil {
				return err
			}
		}
	}
	srv := zzNewServer("srv", impl, map[string]grpc.StreamHandler{"BidiStream": sh}, sopts...)
	c2s := make(chan *Rpc, 4)
	s2c := make(chan *Rpc, 4)
	crw, srw := NewGoatOverChannel(s2c, c2s), NewGoatOverChannel(c2s, s2c)
	sctx, scancel := context.WithCancel(context.Background())
	serveReturned := false
	go func() {
		srv.Serve(sctx, srw)
		serveReturned = true
	}()
	cc := NewClientConn(crw, "cli", "srv", copts...)
	done := false
	var callErr error
	go func() {
		ctx := metadata.AppendToOutgoingContext(context.Background(), "k", "v")
		if kind == 0 {
			out := new(testproto.Msg)
			callErr = cc.Invoke(ctx, "/"+zzSvcName+"/Unary", &testproto.Msg{Value: 3}, out)
		} else {
			cs, err := cc.NewStream(ctx, &grpc.StreamDesc{ClientStreams: true, ServerStreams: true}, "/"+zzSvcName+"/BidiStream")
			if err != nil {
				callErr = err
			} else if late == 1 {
				cs.SendMsg(&testproto.Msg{}) // encodes to zero bytes
				cs.CloseSend()
				out := new(testproto.Msg)
				err := cs.RecvMsg(out)
				if err != io.EOF {
					callErr = err
				}
			} else {
				cs.SendMsg(&testproto.Msg{Value: 3})
				out := new(testproto.Msg)
				cs.RecvMsg(out)
				cs.CloseSend()
				err := cs.RecvMsg(out)
				if err != io.EOF {
					callErr = err
				}
			}
		}
		done = true
		srv.Stop()
		scancel()
	}()
	vfAtQuiescence(func() {
		vfAssert(done, "call-returns")
		vfAssert(serveReturned, "Serve-returns")
		if !done || !serveReturned {
			return
		}
		vfAssert((callErr != nil) == (outcome == 1), "caller-observes-outcome")
		for i := 0; i < H; i++ {
			csh[i].wellPaired(1, []bool{outcome == 1})
			ssh[i].wellPaired(1, []bool{outcome == 1})
			vfAssert(len(ssh[i].conn) == 2 && ssh[i].conn[0] == "begin" && ssh[i].conn[1] == "end", "one-ConnBegin-then-one-ConnEnd-per-served-connection")
		}
		vfReach("checked")
	})
}

// H_C20_stats_failures: client-side stats pairing for RPCs that fail before or at the
// transport: outcome 0 = stream whose opening write fails, 1 = unary call whose request
// write fails, 2 = stream opened, then the connection's read side fails, 3 = cancel with an
// undelivered response, 4/5 = stream opened, then reset by the peer.
func H_C20_stats_failures() {
	H := vfParam("H", 1)
	outcome := vfParam("outcome", 0)
	var csh []*zzRecStats
	var copts []DialOption
	for i := 0; i < H; i++ {
		c := newZZRecStats()
		csh = append(csh, c)
		copts = append(copts, WithStatsHandler(c))
	}
	conn := newZZConn()
	if outcome < 2 {
		conn.failWrite = errors.New("transport write failed")
	}
	cc := NewClientConn(conn, "cli", "srv", copts...)
	done := false
	var callErr error
	go func() {
		switch outcome {
		case 0:
			_, callErr = cc.NewStream(context.Background(), &grpc.StreamDesc{ClientStreams: true, ServerStreams: true}, "/"+zzSvcName+"/BidiStream")
		case 1:
			out := new(testproto.Msg)
			callErr = cc.Invoke(context.Background(), "/"+zzSvcName+"/Unary", &testproto.Msg{Value: 3}, out)
		case 3:
			// the caller cancels while a response it never received sits in the stream's read loop
			ctx, cancel := context.WithCancel(context.Background())
			cs, err := cc.NewStream(ctx, &grpc.StreamDesc{ClientStreams: true, ServerStreams: true}, "/"+zzSvcName+"/BidiStream")
			if err != nil {
				callErr = err
			} else {
				conn.in <- &Rpc{Id: 1, Header: zzRespHdr(), Body: &goatorepo.Body{Data: zzEnc(5)}}
				cs.Header() // the read loop has taken the envelope
				cancel()
				out := new(testproto.Msg)
				for {
					if callErr = cs.RecvMsg(out); callErr != nil {
						break
					}
				}
			}
			cancel()
		default:
			cs, err := cc.NewStream(context.Background(), &grpc.StreamDesc{ClientStreams: true, ServerStreams: true}, "/"+zzSvcName+"/BidiStream")
			if err != nil {
				callErr = err
			} else {
				out := new(testproto.Msg)
				callErr = cs.RecvMsg(out)
			}
		}
		done = true
	}()
	if outcome == 2 {
		go func() { conn.rerr <- errors.New("connection reset") }()
	}
	if outcome == 4 || outcome == 5 {
		// the peer resets the stream the way goat's own server does (reset + empty trailer, no status),
		// outcome 5: with another reset type string
		typ := "RST_STREAM"
		if outcome == 5 {
			typ = "CANCEL"
		}
		conn.wch = make(chan *Rpc, 4)
		go func() {
			<-conn.wch // the open is on the wire
			conn.in <- &Rpc{Id: 1, Header: zzRespHdr(), Reset_: &goatorepo.Reset{Type: typ}, Trailer: &goatorepo.Trailer{}}
		}()
	}
	vfAtQuiescence(func() {
		vfAssert(done, "call-returns")
		if !done {
			return
		}
		vfAssert(callErr != nil, "failure-reported-to-the-caller")
		for i := 0; i < H; i++ {
			if csh[i].ntags == 0 {
				// the RPC never came to be (connection already failed before an id was allocated)
				continue
			}
			csh[i].wellPaired(1, []bool{true})
		}
		vfReach("checked")
	})
}
