//go:build verif

package goat

import (
	"context"
	"errors"
	"google.golang.org/grpc/codes"
	"google.golang.org/grpc/status"
	"io"

	"github.com/avos-io/goat/gen/testproto"
	"github.com/avos-io/goat/internal/server"
	"google.golang.org/grpc"
	"google.golang.org/grpc/metadata"
)

func zzHasMD(r *Rpc) bool { return r.Header != nil && len(r.Header.Headers) > 0 }

// zzCheckWire: the protocol automaton of C06 over the complete per-direction logs of one
// connection carrying exactly one RPC with id 1 (unary or streaming).
func zzCheckWire(c2s, s2c []*Rpc, streaming bool, handlerReturned bool, method string, cancelled bool) {
	// every envelope: header, constant routing fields, ids
	for _, r := range c2s {
		vfAssert(r.Header != nil, "every-envelope-carries-a-header")
		vfAssert(r.Id == 1, "client-envelopes-carry-the-streams-id")
		if r.Header != nil {
			vfAssert(r.Header.Method == method && r.Header.Source == "cli" && r.Header.Destination == "srv", "request-routing-fields-constant")
		}
	}
	for i, r := range s2c {
		vfAssert(r.Header != nil, "every-envelope-carries-a-header")
		vfAssert(r.Id == 1, "server-emits-only-for-ids-it-received")
		if r.Header != nil {
			vfAssert(r.Header.Method == method && r.Header.Source == "srv" && r.Header.Destination == "cli", "responses-swap-source-and-destination")
		}
		if i > 0 {
			vfAssert(!zzHasMD(r), "response-metadata-only-on-the-first-response-envelope")
		}
	}
	clientReset := false
	if !streaming {
		if cancelled && len(c2s) == 0 {
			// the call was cancelled before its request left: nothing on the wire at all
			vfAssert(len(s2c) == 0, "no-response-without-a-request")
			return
		}
		vfAssert(len(c2s) == 1 && c2s[0].Body != nil && c2s[0].Status == nil && c2s[0].Trailer == nil && c2s[0].Reset_ == nil, "unary-request-is-exactly-one-header-and-body-envelope")
		vfAssert(len(s2c) == 1, "unary-response-is-exactly-one-envelope")
		if len(s2c) == 1 {
			r := s2c[0]
			vfAssert(r.Trailer != nil && r.Reset_ == nil, "unary-response-carries-a-trailer")
			vfAssert(r.Body != nil || (r.Status != nil && r.Status.Code != 0), "unary-response-has-a-body-or-a-non-OK-status")
		}
		return
	}
	// client -> server, streaming: OPEN BODY* TRAILER? RESET?
	state := 0 // 0 expect open, 1 open, 2 trailer sent, 3 reset sent
	for _, r := range c2s {
		isReset := r.Reset_ != nil
		isTrailer := r.Trailer != nil && !isReset
		isBody := r.Body != nil && !isTrailer && !isReset
		switch {
		case state == 0:
			vfAssert(!isReset && !isTrailer && !isBody && r.Status == nil, "stream-opens-with-a-header-only-envelope")
			state = 1
		case isReset:
			vfAssert(state != 3, "at-most-one-client-reset")
			state = 3
			clientReset = true
		case state == 3:
			vfFail("nothing-after-the-clients-reset")
		case isTrailer:
			vfAssert(state == 1, "at-most-one-client-trailer")
			vfAssert(r.Status != nil, "trailer-carries-a-status")
			state = 2
		default:
			vfAssert(state == 1, "no-header-or-body-after-the-clients-trailer")
			vfAssert(isBody, "only-body-envelopes-between-open-and-trailer")
		}
	}
	// server -> client, streaming: HDR? BODY* TRAILER? then only RESETs
	st := 0 // 0 start, 1 after first, 2 trailer sent
	trailers := 0
	for _, r := range s2c {
		isReset := r.Reset_ != nil
		isTrailer := r.Trailer != nil && !isReset
		if isReset {
			vfAssert(st == 2 || !handlerReturned || trailers > 0 || true, "reset-envelope-shape")
			vfAssert(r.Status == nil, "reset-carries-no-status")
			if handlerReturned {
				vfAssert(st == 2, "server-reset-never-overtakes-the-streams-trailer")
			}
			continue
		}
		vfAssert(st != 2, "no-header-body-or-trailer-after-the-trailer")
		if isTrailer {
			vfAssert(r.Status != nil, "trailer-carries-a-status")
			trailers++
			st = 2
			continue
		}
		if r.Body == nil {
			vfAssert(st == 0, "header-only-response-envelope-only-first")
		}
		st = 1
	}
	vfAssert(trailers <= 1, "at-most-one-trailer")
	if handlerReturned && !clientReset {
		vfAssert(trailers == 1, "trailer-always-sent-when-a-handler-returns-on-a-live-unreset-stream")
	}
}

// H_C06_wire: one RPC between a real client and server with taps on both directions; the
// complete wire history must be accepted by the protocol automaton.
// kind: 0 unary, 1 bidi. herr: handler returns an error. cp/hp: programs as in C02.
// hdrmode (stream): 0 none, 1 SetHeader+first message, 2 explicit SendHeader, 3 SetTrailer.
// cancel: the caller cancels at an arbitrary point.
func H_C06_wire() {
	kind := vfParam("kind", 0)
	herrP := vfParam("herr", 0)
	cp := vfParam("cp", 0)
	hp := vfParam("hp", 0)
	n := vfParam("msgs", 1)
	hdrmode := vfParam("hdrmode", 0)
	doCancel := vfParam("cancel", 0)
	wfail := vfParam("wfail", 0)   // the client's k-th transport write fails once (transient), k = wfail
	badmsg := vfParam("badmsg", 0) // the caller passes a message the codec cannot marshal
	zero := vfParam("zero", 0)     // the caller's messages are zero-valued (they encode to zero bytes)
	var herr error
	switch herrP {
	case 1:
		herr = errors.New("handler failed")
	case 2: // the handler's own Canceled-flavoured failures: its caller has NOT gone, a trailer is due
		herr = status.Error(codes.Canceled, "downstream call cancelled")
	case 3:
		herr = context.Canceled
	case 4:
		herr = context.DeadlineExceeded
	}
	impl := &zzImpl{}
	impl.unary = func(ctx context.Context, in *testproto.Msg) (*testproto.Msg, error) {
		if hdrmode != 0 {
			grpc.SetHeader(ctx, metadata.Pairs("h", "1"))
			grpc.SetTrailer(ctx, metadata.Pairs("t", "1"))
		}
		if herr != nil {
			return nil, herr
		}
		return &testproto.Msg{Value: in.GetValue() + 1}, nil
	}
	rec := &zzStreamRec{}
	inner := zzStreamHandler(rec, hp, n, 5, herr)
	sh := func(srv any, stream grpc.ServerStream) error {
		switch hdrmode {
		case 1:
			stream.SetHeader(metadata.Pairs("h", "1"))
		case 2:
			stream.SetHeader(metadata.Pairs("h", "1"))
			stream.SendHeader(metadata.Pairs("h2", "2"))
		case 3:
			stream.SetTrailer(metadata.Pairs("t", "1"))
		}
		return inner(srv, stream)
	}
	srv := zzNewServer("srv", impl, map[string]grpc.StreamHandler{"BidiStream": sh})
	tcap := vfParam("tcap", 2)
	c2s := make(chan *Rpc, tcap)
	s2c := make(chan *Rpc, tcap)
	ctap := &zzTap{rw: NewGoatOverChannel(s2c, c2s)}
	stap := &zzTap{rw: NewGoatOverChannel(c2s, s2c)}
	go func() { srv.Serve(context.Background(), stap) }()
	var crw RpcReadWriter = ctap
	if wfail > 0 {
		crw = &zzFailNth{rw: ctap, n: wfail}
	}
	cc := NewClientConn(crw, "cli", "srv")
	ctx, cancel := context.WithCancel(context.Background())
	done := false
	method := "/" + zzSvcName + "/Unary"
	if kind == 1 {
		method = "/" + zzSvcName + "/BidiStream"
	}
	go func() {
		if kind == 0 {
			out := new(testproto.Msg)
			cc.Invoke(ctx, method, &testproto.Msg{Value: 1}, out)
			done = true
			return
		}
		cs, err := cc.NewStream(ctx, &grpc.StreamDesc{ClientStreams: true, ServerStreams: true}, method)
		if err != nil {
			done = true
			return
		}
		recvAll := func() {
			for i := 0; i < 2*n+3; i++ {
				out := new(testproto.Msg)
				if cs.RecvMsg(out) != nil {
					return
				}
			}
		}
		if badmsg == 1 {
			cs.SendMsg("not a protobuf message")
		}
		mv := func(i int) int32 {
			if zero == 1 {
				return 0
			}
			return int32(i + 1)
		}
		switch cp {
		case 0:
			for i := 0; i < n; i++ {
				cs.SendMsg(&testproto.Msg{Value: mv(i)})
			}
			cs.CloseSend()
			recvAll()
		case 1:
			for i := 0; i < n; i++ {
				cs.SendMsg(&testproto.Msg{Value: int32(i + 1)})
				if hp == 0 {
					out := new(testproto.Msg)
					if cs.RecvMsg(out) != nil {
						break
					}
				}
			}
			cs.CloseSend()
			recvAll()
		default:
			cs.CloseSend()
			recvAll()
		}
		done = true
	}()
	if doCancel == 1 {
		go func() { cancel() }()
	}
	vfAtQuiescence(func() {
		vfAssert(done, "caller-returns")
		if !done {
			return
		}
		zzCheckWire(ctap.written(), stap.written(), kind == 1, kind == 1 && rec.returned == 1, method, doCancel == 1)
		vfReach("checked")
	})
	_ = io.EOF
}

// zzFailNth fails exactly the n-th write (1-based) and lets every other one through.
type zzFailNth struct {
	rw RpcReadWriter
	mu vfMutex
	k  int
	n  int
}

func (f *zzFailNth) Read(ctx context.Context) (*Rpc, error) { return f.rw.Read(ctx) }
func (f *zzFailNth) Write(ctx context.Context, r *Rpc) error {
	f.mu.vfLock()
	f.k++
	fail := f.k == f.n
	f.mu.vfUnlock()
	if fail {
		return errors.New("transient write failure")
	}
	return f.rw.Write(ctx, r)
}

// H_C04_stream_md: headers and trailers a streaming handler sets reach the caller whatever the
// way they leave: mode 0 SetHeader only (they leave with the final status, no message sent),
// 1 SetHeader then one message, 2 SetHeader + SendHeader, 5 SendHeader concurrent with a send; herr: the handler returns an error.
// Values are symbolic (incl. a -bin key with arbitrary bytes), two values under one key.
func H_C04_stream_md() {
	mode := vfParam("mode", 0)
	herrP := vfParam("herr", 0)
	v1, v2, b1, t1 := vfString("v1", 1), vfString("v2", 1), vfString("b1", 2), vfString("t1", 1)
	var herr error
	if herrP == 1 {
		herr = errors.New("handler failed")
	}
	var lateErr error
	sh := func(srv any, stream grpc.ServerStream) error {
		stream.SetHeader(metadata.MD{"k": {v1}})
		stream.SetHeader(metadata.MD{"k": {v2}, "x-bin": {b1}})
		stream.SetTrailer(metadata.MD{"t": {t1}})
		switch mode {
		case 1:
			if err := stream.SendMsg(&testproto.Msg{Value: 7}); err != nil {
				return err
			}
		case 2:
			if err := stream.SendHeader(metadata.MD{"late": {"x"}}); err != nil {
				return err
			}
		case 5:
			// SendHeader concurrent with a send from another goroutine of the handler (the API permits
			// header calls concurrent with sends): whichever goes first, the first envelope on the wire
			// carries the pending headers; if SendHeader reported success its metadata is among them
			sent := make(chan error, 1)
			go func() { sent <- stream.SendMsg(&testproto.Msg{Value: 7}) }()
			lateErr = stream.SendHeader(metadata.MD{"late": {"x"}})
			if err := <-sent; err != nil {
				return err
			}
		case 3, 4:
			// the first message cannot be encoded: nothing leaves, and the pending headers must still
			// go out with whatever leaves next (mode 3: the final status; mode 4: the next message)
			stream.SendMsg("not a protobuf message")
			if mode == 4 {
				if err := stream.SendMsg(&testproto.Msg{Value: 7}); err != nil {
					return err
				}
			}
		}
		return herr
	}
	srv := zzNewServer("srv", &zzImpl{}, map[string]grpc.StreamHandler{"BidiStream": sh})
	c2s := make(chan *Rpc, 2)
	s2c := make(chan *Rpc, 2)
	go func() { srv.Serve(context.Background(), NewGoatOverChannel(c2s, s2c)) }()
	cc := NewClientConn(NewGoatOverChannel(s2c, c2s), "cli", "srv")
	done := false
	var hdr, trl metadata.MD
	var hdrErr, termErr error
	go func() {
		cs, err := cc.NewStream(context.Background(), &grpc.StreamDesc{ClientStreams: true, ServerStreams: true}, "/"+zzSvcName+"/BidiStream")
		if err != nil {
			return
		}
		for {
			out := new(testproto.Msg)
			if termErr = cs.RecvMsg(out); termErr != nil {
				break
			}
		}
		hdr, hdrErr = cs.Header()
		trl = cs.Trailer()
		done = true
	}()
	vfAtQuiescence(func() {
		vfAssert(done, "caller-returns")
		if !done {
			return
		}
		vfAssert((termErr == io.EOF) == (herrP == 0), "outcome")
		vfAssert(hdrErr == nil, "header-available")
		vfAssert(len(hdr["k"]) == 2 && hdr["k"][0] == v1 && hdr["k"][1] == v2, "header-values-in-SetHeader-order")
		vfAssert(len(hdr["x-bin"]) == 1 && hdr["x-bin"][0] == b1, "binary-header-byte-exact")
		if mode == 2 {
			vfAssert(len(hdr["late"]) == 1, "SendHeader-metadata-included")
		}
		if mode == 5 && lateErr == nil {
			vfAssert(len(hdr["late"]) == 1, "successful-SendHeader-metadata-included")
		}
		vfAssert(len(trl["t"]) == 1 && trl["t"][0] == t1, "trailer-arrives")
		vfReach("checked")
	})
}

// H_C06_server_stream: the server side of one stream driven directly (internal/server's exported
// NewServerStream) over a transport on which one write - any of them - fails once: the handler sets
// response metadata, sends two messages and ends with a trailer, carrying on after a failed send.
// Of the envelopes that did reach the wire, only the first may carry response metadata, there is
// at most one trailer and nothing follows it.
func H_C06_server_stream() {
	failAt := vfChoice("failAt", 4) // 0: no failure; k: the k-th write fails
	explicit := vfParam("sendheader", 0)
	conn := newZZConn()
	rw := &zzFailNth{rw: conn, n: failAt}
	ss, err := server.NewServerStream(context.Background(), 1, "/"+zzSvcName+"/BidiStream", "cli", "srv", rw, nil)
	vfAssert(err == nil, "stream-created")
	ss.SetHeader(metadata.Pairs("h", "1"))
	if explicit == 1 {
		ss.SendHeader(metadata.Pairs("h2", "2"))
	}
	ss.SendMsg(&testproto.Msg{Value: 1})
	ss.SendMsg(&testproto.Msg{Value: 2})
	ss.SetTrailer(metadata.Pairs("t", "1"))
	ss.SendTrailer(nil)
	w := conn.written()
	trailers := 0
	for i, r := range w {
		if i > 0 {
			vfAssert(!zzHasMD(r), "response-metadata-only-on-the-first-response-envelope")
		}
		vfAssert(trailers == 0, "nothing-after-the-trailer")
		if r.Trailer != nil {
			trailers++
		}
	}
	if failAt == 0 {
		vfAssert(len(w) >= 3 && zzHasMD(w[0]) && trailers == 1, "complete-history-without-failures")
	}
	vfReach("checked")
}
