//go:build verif

package goat

import (
	"context"
	"errors"

	"github.com/avos-io/goat/gen/goatorepo"
)

// H_C16_forward: one forwarding step of a proxy from a proxy state with `peers` attached
// peers (queue fill levels symbolic via `fill`), for an arbitrary accepted envelope.
// The envelope must be enqueued exactly once, on the queue of the peer named by the
// (interceptor-rewritten) destination or the last ProxyNext hop; dialled on demand exactly
// when that name is not attached; ProxyRecord = old record + proxy id; nothing else moves.
func H_C16_forward() {
	peers := vfParam("peers", 2)
	icKind := vfParam("ic", 0)    // 0 none, 1 rewrite destination to a symbolic name, 2 reject
	nextLen := vfParam("next", 0) // ProxyNext: 0 nil, 1 one hop, 2 two hops
	recLen := vfParam("rec", 0)   // ProxyRecord length 0..2
	fill := vfParam("fill", 0)    // envelopes already queued for each attached peer
	dialed := []string{}
	dial := func(id string) (RpcReadWriter, error) {
		dialed = append(dialed, id)
		return nil, errors.New("dial refused") // the step under test is forwardRpc only
	}
	rewriteTo := zzSymName("rewrite", 'p')
	var ic RpcIntercepter
	switch icKind {
	case 1:
		ic = func(h *goatorepo.RequestHeader) error { h.Destination = rewriteTo; return nil }
	case 2:
		ic = func(h *goatorepo.RequestHeader) error { return errors.New("rejected") }
	}
	ctx, cancel := context.WithCancel(context.Background())
	defer cancel()
	p := NewProxy(ctx, "proxy", dial, ic, nil)
	names := make([]string, peers)
	clients := make([]*proxyClient, peers)
	for i := 0; i < peers; i++ {
		names[i] = string([]byte{'p', byte('0' + i)})
		c := &proxyClient{id: names[i], toServer: p.commands, fromServer: make(chan *goatorepo.Rpc, clientBufferSize)}
		for j := 0; j < fill; j++ {
			c.fromServer <- &goatorepo.Rpc{Id: 1000}
		}
		p.clients[names[i]] = c
		clients[i] = c
	}
	src := names[0]
	dst := zzSymName("dst", 'p')
	hdr := &goatorepo.RequestHeader{Method: "/s/m", Source: src, Destination: dst}
	var next []string
	for i := 0; i < nextLen; i++ {
		next = append(next, zzSymName("hop", 'p'))
	}
	hdr.ProxyNext = next
	if nextLen < 0 {
		hdr.ProxyNext = []string{} // empty but non-nil: what a by-reference transport can carry
		nextLen = 0
	}
	var rec []string
	for i := 0; i < recLen; i++ {
		rec = append(rec, string([]byte{'r', byte('0' + i)}))
	}
	hdr.ProxyRecord = rec
	body := &goatorepo.Body{Data: []byte{vfByte("payload")}}
	rpc := &goatorepo.Rpc{Id: vfUint64("id"), Header: hdr, Body: body}
	wantID := rpc.Id

	p.forwardRpc(src, rpc)

	if icKind == 2 {
		for i := range clients {
			vfAssert(len(clients[i].fromServer) == fill, "rejected-envelope-not-forwarded")
		}
		vfAssert(len(dialed) == 0 && len(p.clients) == peers, "rejected-envelope-dials-nobody")
		vfReach("rejected")
		return
	}
	// where it must go
	target := dst
	if icKind == 1 {
		target = rewriteTo
	}
	if nextLen > 0 {
		target = next[nextLen-1]
	}
	total := 0
	for name, c := range p.clients {
		n := len(c.fromServer)
		base := 0
		attached := false
		for i := range names {
			if names[i] == name {
				base = fill
				attached = true
			}
		}
		if name == target {
			vfAssert(n == base+1, "enqueued-exactly-once-for-the-destination")
			vfAssert(attached || len(p.clients) == peers+1, "dialled-on-demand")
		} else {
			vfAssert(n == base, "nothing-enqueued-for-other-peers")
		}
		total += n - base
	}
	vfAssert(total == 1, "exactly-one-copy-in-the-proxy")
	tc := p.clients[target]
	vfAssert(tc != nil, "destination-has-a-connection-record")
	if tc == nil {
		return
	}
	// drain to the forwarded envelope
	var fwd *goatorepo.Rpc
	for len(tc.fromServer) > 0 {
		fwd = <-tc.fromServer
	}
	vfAssert(fwd == rpc, "the-envelope-itself-is-forwarded")
	vfAssert(fwd.Id == wantID && fwd.Body == body && fwd.Header.Method == "/s/m" && fwd.Header.Source == src, "payload-and-identity-untouched")
	vfAssert(len(fwd.Header.ProxyRecord) == recLen+1, "route-record-grows-by-one")
	for i := 0; i < recLen; i++ {
		vfAssert(fwd.Header.ProxyRecord[i] == rec[i], "route-record-prefix-kept")
	}
	vfAssert(fwd.Header.ProxyRecord[recLen] == "proxy", "own-name-appended-exactly-once")
	if nextLen > 0 {
		vfAssert(len(fwd.Header.ProxyNext) == nextLen-1, "return-route-popped-by-one")
		for i := 0; i < nextLen-1; i++ {
			vfAssert(fwd.Header.ProxyNext[i] == next[i], "return-route-prefix-kept")
		}
	}
	vfReach("forwarded")
}
