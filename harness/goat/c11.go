//go:build verif

package goat

import (
	"context"

	"github.com/avos-io/goat/gen/goatorepo"
	"github.com/avos-io/goat/gen/testproto"
	"google.golang.org/grpc"
)

// H_C11_server_abandon: a streaming handler returns after consuming k of the n bodies the
// peer sends; the peer keeps sending the rest and a trailer, then issues a probe unary
// request. The probe's reply must be written and Serve must still end cleanly.
func H_C11_server_abandon() {
	n := vfParam("n", 3)
	k := vfParam("k", 0)
	pv := vfByte("probe")
	vfAssume(pv != 0)
	impl := &zzImpl{}
	impl.unary = func(ctx context.Context, in *testproto.Msg) (*testproto.Msg, error) {
		return &testproto.Msg{Value: in.GetValue() + 1}, nil
	}
	handlerReturned := false
	h := func(srv any, stream grpc.ServerStream) error {
		for i := 0; i < k; i++ {
			in := new(testproto.Msg)
			if err := stream.RecvMsg(in); err != nil {
				return err
			}
		}
		handlerReturned = true
		return nil
	}
	srv := zzNewServer("srv", impl, map[string]grpc.StreamHandler{"BidiStream": h})
	conn := newZZConn()
	conn.wch = make(chan *Rpc, 16)
	serveDone := false
	go func() {
		srv.Serve(context.Background(), conn)
		serveDone = true
	}()
	scriptDone := false
	go func() {
		conn.in <- &Rpc{Id: 1, Header: zzReqHdr("BidiStream")}
		for i := 0; i < n; i++ {
			conn.in <- &Rpc{Id: 1, Header: zzReqHdr("BidiStream"), Body: zzBody(byte(i + 1))}
		}
		conn.in <- &Rpc{Id: 1, Header: zzReqHdr("BidiStream"), Status: &goatorepo.ResponseStatus{Code: 0}, Trailer: &goatorepo.Trailer{}}
		conn.in <- &Rpc{Id: 2, Header: zzReqHdr("Unary"), Body: zzBody(pv)}
		scriptDone = true
	}()
	vfAtQuiescence(func() {
		vfAssert(scriptDone, "server-keeps-reading-the-connection")
		vfAssert(handlerReturned, "handler-returned")
		_ = serveDone
		// the probe's reply is on the wire
		found := false
		for _, w := range conn.written() {
			if w.Id == 2 && w.Body != nil {
				found = true
				vfAssert(len(w.Body.Data) == 5 && w.Body.Data[1] == pv+1, "probe-reply-correct")
			}
		}
		vfAssert(found, "probe-request-served-after-abandonment")
		vfReach("checked")
	})
}

// zzLateFailRW: the first stream-open envelope written through it goes out, but its Write reports
// the caller's context error once that context ends (a write deadline that fires after the bytes
// left): allowed transport behaviour.
type zzLateFailRW struct {
	rw   RpcReadWriter
	mu   vfMutex
	used bool
	sent chan struct{}
}

func (c *zzLateFailRW) Read(ctx context.Context) (*Rpc, error) { return c.rw.Read(ctx) }
func (c *zzLateFailRW) Write(ctx context.Context, rpc *Rpc) error {
	c.mu.vfLock()
	first := !c.used && rpc.Body == nil && rpc.Reset_ == nil && rpc.Trailer == nil && rpc.Status == nil
	if first {
		c.used = true
	}
	c.mu.vfUnlock()
	if !first {
		return c.rw.Write(ctx, rpc)
	}
	if err := c.rw.Write(ctx, rpc); err != nil {
		return err
	}
	close(c.sent)
	<-ctx.Done()
	return ctx.Err()
}

// H_C11_failed_open_cc: through the real ClientConn and Server: a stream's opening write is reported
// as failed when the caller gives up, although the server received the open and its handler has
// started answering (m messages). NewStream returns the error, the call is released, and a unary
// call made afterwards on the same connection completes.
func H_C11_failed_open_cc() {
	m := vfParam("m", 2)
	impl := &zzImpl{}
	impl.unary = func(ctx context.Context, in *testproto.Msg) (*testproto.Msg, error) {
		return &testproto.Msg{Value: in.GetValue() + 1}, nil
	}
	sh := func(srv any, stream grpc.ServerStream) error {
		for i := 0; i < m; i++ {
			if err := stream.SendMsg(&testproto.Msg{Value: int32(i + 1)}); err != nil {
				return err
			}
		}
		<-stream.Context().Done()
		return stream.Context().Err()
	}
	srv := zzNewServer("srv", impl, map[string]grpc.StreamHandler{"BidiStream": sh})
	c2s := make(chan *Rpc, 4)
	s2c := make(chan *Rpc, 4)
	go func() {
		vfHarnessGoroutine()
		srv.Serve(context.Background(), NewGoatOverChannel(c2s, s2c))
	}()
	link := &zzLateFailRW{rw: NewGoatOverChannel(s2c, c2s), sent: make(chan struct{})}
	cc := NewClientConn(link, "cli", "srv")
	ctx, cancel := context.WithCancel(context.Background())
	openDone, probeDone := false, false
	var openErr, probeErr error
	var probeVal int32
	go func() {
		_, openErr = cc.NewStream(ctx, &grpc.StreamDesc{ClientStreams: true, ServerStreams: true}, "/"+zzSvcName+"/BidiStream")
		openDone = true
		out := new(testproto.Msg)
		probeErr = cc.Invoke(context.Background(), "/"+zzSvcName+"/Unary", &testproto.Msg{Value: 41}, out)
		probeVal = out.GetValue()
		probeDone = true
	}()
	go func() {
		<-link.sent
		cancel()
	}()
	vfAtQuiescence(func() {
		vfAssert(openDone && openErr != nil, "failed-open-returns-its-error")
		vfAssert(probeDone && probeErr == nil && probeVal == 42, "call-made-after-the-failed-open-completes")
		vfReach("checked")
	})
}
