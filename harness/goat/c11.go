//go:build verif

package goat

import (
	"context"

	"github.com/avos-io/goat/gen/goatorepo"
	"github.com/avos-io/goat/gen/testproto"
	"google.golang.org/grpc"
)

// H_C11_server_abandon: a streaming handler returns after consuming k of the n bodies the
// peer sends; the peer keeps sending the rest and a trailer, then issues a probe unary
// request. The probe's reply must be written and Serve must still end cleanly.
func H_C11_server_abandon() {
	n := vfParam("n", 3)
	k := vfParam("k", 0)
	pv := vfByte("probe")
	vfAssume(pv != 0)
	impl := &zzImpl{}
	impl.unary = func(ctx context.Context, in *testproto.Msg) (*testproto.Msg, error) {
		return &testproto.Msg{Value: in.GetValue() + 1}, nil
	}
	handlerReturned := false
	h := func(srv any, stream grpc.ServerStream) error {
		for i := 0; i < k; i++ {
			in := new(testproto.Msg)
			if err := stream.RecvMsg(in); err != nil {
				return err
			}
		}
		handlerReturned = true
		return nil
	}
	srv := zzNewServer("srv", impl, map[string]grpc.StreamHandler{"BidiStream": h})
	conn := newZZConn()
	conn.wch = make(chan *Rpc, 16)
	serveDone := false
	go func() {
		srv.Serve(context.Background(), conn)
		serveDone = true
	}()
	scriptDone := false
	go func() {
		conn.in <- &Rpc{Id: 1, Header: zzReqHdr("BidiStream")}
		for i := 0; i < n; i++ {
			conn.in <- &Rpc{Id: 1, Header: zzReqHdr("BidiStream"), Body: zzBody(byte(i + 1))}
		}
		conn.in <- &Rpc{Id: 1, Header: zzReqHdr("BidiStream"), Status: &goatorepo.ResponseStatus{Code: 0}, Trailer: &goatorepo.Trailer{}}
		conn.in <- &Rpc{Id: 2, Header: zzReqHdr("Unary"), Body: zzBody(pv)}
		scriptDone = true
	}()
	vfAtQuiescence(func() {
		vfAssert(scriptDone, "server-keeps-reading-the-connection")
		vfAssert(handlerReturned, "handler-returned")
		_ = serveDone
		// the probe's reply is on the wire
		found := false
		for _, w := range conn.written() {
			if w.Id == 2 && w.Body != nil {
				found = true
				vfAssert(len(w.Body.Data) == 5 && w.Body.Data[1] == pv+1, "probe-reply-correct")
			}
		}
		vfAssert(found, "probe-request-served-after-abandonment")
		vfReach("checked")
	})
}
