//go:build verif

package goat

import (
	"context"
	"errors"
	"io"

	"github.com/avos-io/goat/gen/goatorepo"
	"github.com/avos-io/goat/gen/testproto"
	"google.golang.org/grpc"
	"google.golang.org/grpc/stats"
)

const zzNumRespShapes = 13

// zzResponse builds a response-side envelope; bodies carry value v.
func zzResponse(shape int, id uint64, v byte) *Rpc {
	bad := []*goatorepo.KeyValue{{Key: "k-bin", Value: "!!not base64!!"}}
	good := []*goatorepo.KeyValue{{Key: "k", Value: "v"}}
	switch shape {
	case 0: // header absent
		return &Rpc{Id: id, Body: zzBody(v), Trailer: &goatorepo.Trailer{}}
	case 1: // explicit OK status together with a body
		return &Rpc{Id: id, Header: zzRespHdr(), Status: &goatorepo.ResponseStatus{Code: 0, Message: "OK"}, Body: zzBody(v), Trailer: &goatorepo.Trailer{}}
	case 2: // error status, no body
		return &Rpc{Id: id, Header: zzRespHdr(), Status: &goatorepo.ResponseStatus{Code: 5, Message: "nope"}, Trailer: &goatorepo.Trailer{}}
	case 3: // body without trailer
		return &Rpc{Id: id, Header: zzRespHdr(), Body: zzBody(v)}
	case 4: // complete unary reply
		return &Rpc{Id: id, Header: zzRespHdr(), Body: zzBody(v), Trailer: &goatorepo.Trailer{}}
	case 5: // stream trailer, OK
		return &Rpc{Id: id, Header: zzRespHdr(), Status: &goatorepo.ResponseStatus{Code: 0, Message: "OK"}, Trailer: &goatorepo.Trailer{Metadata: good}}
	case 6: // trailer with undecodable metadata
		return &Rpc{Id: id, Header: zzRespHdr(), Status: &goatorepo.ResponseStatus{Code: 0}, Trailer: &goatorepo.Trailer{Metadata: bad}}
	case 7: // header-only with undecodable metadata
		h := zzRespHdr()
		h.Headers = bad
		return &Rpc{Id: id, Header: h}
	case 8: // header-only with metadata
		h := zzRespHdr()
		h.Headers = good
		return &Rpc{Id: id, Header: h}
	case 9: // reset
		return &Rpc{Id: id, Header: zzRespHdr(), Reset_: &goatorepo.Reset{Type: "RST_STREAM"}, Trailer: &goatorepo.Trailer{}}
	case 10: // nothing but an id
		return &Rpc{Id: id}
	case 12: // a foreign peer's reset: some other type string, with an (empty) trailer like goat's own
		return &Rpc{Id: id, Header: zzRespHdr(), Reset_: &goatorepo.Reset{Type: "CANCEL"}, Trailer: &goatorepo.Trailer{}}
	default: // trailer without status and without body
		return &Rpc{Id: id, Header: zzRespHdr(), Trailer: &goatorepo.Trailer{}}
	}
}

// zzNopStats is a stats handler that only passes contexts through.
type zzNopStats struct{ events int }

func (z *zzNopStats) TagRPC(ctx context.Context, _ *stats.RPCTagInfo) context.Context { return ctx }
func (z *zzNopStats) HandleRPC(context.Context, stats.RPCStats)                       { z.events++ }
func (z *zzNopStats) TagConn(ctx context.Context, _ *stats.ConnTagInfo) context.Context {
	return ctx
}
func (z *zzNopStats) HandleConn(context.Context, stats.ConnStats) {}

type zzCallObs struct {
	stream  bool
	done    bool
	err     error // unary result / stream terminal error
	val     int32 // unary reply value
	got     []int32
	hdrErr  error
	trailer bool
}

// H_C13_seq: two outstanding calls (kinds per `mode`: 0 unary+unary, 1 unary+stream,
// 2 stream+stream), L arbitrary response envelopes addressed to id 1, 2 or an unknown id,
// then the connection closes. With or without a stats handler.
func H_C13_seq() {
	L := vfParam("L", 2)
	mode := vfParam("mode", 0)
	withStats := vfParam("stats", 0)
	first := vfParam("first", -1)
	second := vfParam("second", -1) // optionally fixes the second shape too (job splitting)
	conn := newZZConn()
	conn.wch = make(chan *Rpc, 16)
	var opts []DialOption
	if withStats == 1 {
		opts = append(opts, WithStatsHandler(&zzNopStats{}))
	}
	cc := NewClientConn(conn, "cli", "srv", opts...)
	obs := []*zzCallObs{{stream: mode == 2}, {stream: mode >= 1}}
	started := make(chan struct{})
	run := func(o *zzCallObs, next chan struct{}) {
		if !o.stream {
			out := new(testproto.Msg)
			// the request leaves from inside Invoke; the peer script waits for it on wch
			if next != nil {
				go func() { <-conn.wch; close(next) }()
			}
			o.err = cc.Invoke(context.Background(), "/"+zzSvcName+"/Unary", &testproto.Msg{Value: 1}, out)
			o.val = out.GetValue()
			o.done = true
			return
		}
		cs, err := cc.NewStream(context.Background(), &grpc.StreamDesc{ServerStreams: true, ClientStreams: true}, "/"+zzSvcName+"/BidiStream")
		if next != nil {
			<-conn.wch
			close(next)
		}
		if err != nil {
			o.err = err
			o.done = true
			return
		}
		for {
			out := new(testproto.Msg)
			err := cs.RecvMsg(out)
			if err != nil {
				o.err = err
				break
			}
			o.got = append(o.got, out.Value)
			if len(o.got) > L+1 {
				vfFail("stream-delivers-more-than-was-sent")
				break
			}
		}
		_, o.hdrErr = cs.Header()
		_ = cs.Trailer()
		o.trailer = true
		o.done = true
	}
	shapes := make([]int, L)
	ids := make([]uint64, L)
	for i := 0; i < L; i++ {
		if vfParam("preset", 0) == 1 && i < 2 {
			// several replies to one unary call: the first two envelopes are complete replies to call 1
			shapes[i] = 4
			ids[i] = 1
			continue
		}
		if i == 0 && first >= 0 {
			shapes[i] = first
		} else if i == 1 && second >= 0 {
			shapes[i] = second
		} else {
			shapes[i] = vfChoice("shape", zzNumRespShapes)
		}
		ids[i] = []uint64{1, 2, 77}[vfChoice("to", 3)]
	}
	go run(obs[0], started)
	go func() {
		<-started
		second := make(chan struct{})
		go run(obs[1], second)
		<-second
		for i := 0; i < L; i++ {
			conn.in <- zzResponse(shapes[i], ids[i], byte(10+i))
		}
		if vfParam("eof", 0) == 1 {
			// the transport reports the end of the connection as io.EOF (a peer that closed): that is
			// not an end of stream for calls whose trailer never arrived (seeded change C13g)
			conn.rerr <- io.EOF
		} else {
			conn.rerr <- errors.New("connection closed")
		}
	}()
	vfAtQuiescence(func() {
		for ci, o := range obs {
			vfAssert(o.done, "every-call-terminates-once-the-connection-is-closed")
			if !o.done {
				continue
			}
			id := uint64(ci + 1)
			if !o.stream {
				if o.err == nil {
					// success only with a body that an envelope addressed to this call carried,
					// on an envelope whose status is absent or OK
					ok := false
					for i := 0; i < L; i++ {
						if ids[i] == id && int32(10+i) == o.val && (shapes[i] == 0 || shapes[i] == 1 || shapes[i] == 3 || shapes[i] == 4) {
							ok = true
						}
					}
					vfAssert(ok, "unary-success-only-with-data-addressed-to-the-call")
					vfReach("unary-success")
				}
				continue
			}
			// stream: received values are bodies of envelopes addressed to it, in order, at most once
			pos := 0
			for _, g := range o.got {
				found := false
				for pos < L {
					i := pos
					pos++
					if ids[i] == id && int32(10+i) == g && (shapes[i] == 0 || shapes[i] == 1 || shapes[i] == 3 || shapes[i] == 4) {
						found = true
						break
					}
				}
				vfAssert(found, "stream-message-was-addressed-to-the-call-in-order-once")
			}
			if o.err == io.EOF {
				ok := false
				for i := 0; i < L; i++ {
					if ids[i] == id && (shapes[i] == 0 || shapes[i] == 1 || shapes[i] == 4 || shapes[i] == 5 || shapes[i] == 6 || shapes[i] == 11) {
						ok = true
					}
				}
				vfAssert(ok, "EOF-only-after-a-trailer-with-OK-status-addressed-to-the-call")
				vfReach("stream-eof")
			}
			vfAssert(o.err != nil, "stream-ends-with-a-result-or-an-error")
		}
		vfReach("checked")
	})
}
