//go:build verif

package goat

import (
	"bytes"
	"context"
	"errors"
	"fmt"
	"maps"
	"slices"
	"sort"
	"strconv"
	"strings"
	"sync"
	"sync/atomic"
	"time"
)

type zzIdiomErr struct{ code int }

func (e *zzIdiomErr) Error() string { return "idiom " + strconv.Itoa(e.code) }

func zzGenericMap[K comparable, V any](m map[K]V, f func(V) V) map[K]V {
	out := make(map[K]V, len(m))
	for k, v := range m {
		out[k] = f(v)
	}
	return out
}

// H_selftest_idioms: standard-library idioms a maintainer's refactor may introduce, executed by
// the engine (from their own SSA or through models) on symbolic and concrete inputs against their
// documented results; also run natively by the translator validation.
func H_selftest_idioms() {
	part := vfParam("part", 0)
	s := vfString("s", 3)
	b := vfByte("b")
	switch part {
	case 0: // slices / maps / builtins
		xs := []string{"a", s, "c"}
		vfAssert(slices.Contains(xs, s), "slices.Contains")
		i := slices.Index(xs, "c")
		vfAssert(i == 2 || (i == 1 && s == "c"), "slices.Index")
		ys := slices.Clone(xs)
		ys[0] = "z"
		vfAssert(xs[0] == "a" && len(ys) == 3, "slices.Clone")
		m := map[string]int{"k": 1, "l": 2}
		m2 := maps.Clone(m)
		m2["k"] = 5
		vfAssert(m["k"] == 1 && len(m2) == 2, "maps.Clone")
		vfAssert(min(int(b), 7) <= 7 && max(int(b), 7) >= 7, "min-max")
		clear(m2)
		vfAssert(len(m2) == 0, "clear")
		g := zzGenericMap(m, func(v int) int { return v + 1 })
		vfAssert(g["l"] == 3, "generic-function")
		ks := make([]string, 0, len(m))
		for k := range m {
			ks = append(ks, k)
		}
		sort.Strings(ks)
		vfAssert(ks[0] == "k" && ks[1] == "l", "sort.Strings")
		zs := []int{3, 1, 2}
		sort.Slice(zs, func(i, j int) bool { return zs[i] < zs[j] })
		vfAssert(zs[0] == 1 && zs[2] == 3, "sort.Slice")
		vfAssert(slices.Equal(zs, []int{1, 2, 3}), "slices.Equal")
	case 1: // strings / strconv / bytes / fmt
		before, after, found := strings.Cut("a/"+s, "/")
		vfAssert(found && before == "a" && after == s, "strings.Cut")
		rest, ok := strings.CutPrefix("grpc-"+s, "grpc-")
		vfAssert(ok && rest == s, "strings.CutPrefix")
		vfAssert(strings.EqualFold("GRPC-Timeout", "grpc-timeout"), "strings.EqualFold")
		vfAssert(strings.TrimSpace("  x ") == "x" && strings.TrimSuffix("a-bin", "-bin") == "a", "Trim")
		vfAssert(strings.HasSuffix(s+"-bin", "-bin") && strings.Repeat("ab", 2) == "abab", "HasSuffix-Repeat")
		vfAssert(strconv.Itoa(1234) == "1234" && strconv.FormatUint(77, 10) == "77", "strconv.Itoa-FormatUint")
		n, err := strconv.Atoi("042")
		vfAssert(err == nil && n == 42, "strconv.Atoi")
		_, err = strconv.ParseUint("x1", 10, 64)
		vfAssert(err != nil, "strconv.ParseUint-error")
		vfAssert(bytes.Equal([]byte{b, 1}, []byte{b, 1}) && !bytes.Equal([]byte{1}, []byte{2}), "bytes.Equal")
		var sb strings.Builder
		sb.WriteString("x")
		sb.WriteByte('y')
		vfAssert(sb.String() == "xy" && sb.Len() == 2, "strings.Builder")
		var bb bytes.Buffer
		bb.WriteString("ab")
		bb.Write([]byte{b})
		vfAssert(bb.Len() == 3 && bb.Bytes()[2] == b, "bytes.Buffer")
		vfAssert(fmt.Sprintf("%s-%d-%v", "a", 5, true) == "a-5-true", "fmt.Sprintf")
		vfAssert(fmt.Sprint("a", 1) != "", "fmt.Sprint")
	case 2: // errors
		base := &zzIdiomErr{code: 3}
		w := fmt.Errorf("wrapped: %w", base)
		var t *zzIdiomErr
		vfAssert(errors.Is(w, base) && errors.As(w, &t) && t.code == 3, "errors.Is-As")
		j := errors.Join(nil, base)
		vfAssert(j != nil && errors.Is(j, base), "errors.Join")
		vfAssert(errors.Unwrap(w) == error(base), "errors.Unwrap")
		vfAssert(errors.Is(context.Canceled, context.Canceled) && !errors.Is(context.Canceled, context.DeadlineExceeded), "context-errors")
	case 3: // atomics, once, sync.Map
		var p atomic.Pointer[zzIdiomErr]
		vfAssert(p.Load() == nil, "atomic.Pointer-zero")
		e1 := &zzIdiomErr{code: 1}
		p.Store(e1)
		vfAssert(p.Load() == e1 && p.CompareAndSwap(e1, nil) && p.Load() == nil, "atomic.Pointer")
		var ab atomic.Bool
		vfAssert(!ab.Swap(true) && ab.Load() && ab.CompareAndSwap(true, false), "atomic.Bool")
		var au atomic.Uint32
		vfAssert(au.Add(2) == 2 && au.Load() == 2, "atomic.Uint32")
		var ai atomic.Int32
		ai.Store(-1)
		vfAssert(ai.Add(1) == 0, "atomic.Int32")
		var av atomic.Value
		av.Store("x")
		vfAssert(av.Load().(string) == "x", "atomic.Value")
		calls := 0
		f := sync.OnceFunc(func() { calls++ })
		f()
		f()
		vfAssert(calls == 1, "sync.OnceFunc")
		ov := sync.OnceValue(func() int { calls++; return 9 })
		vfAssert(ov() == 9 && ov() == 9 && calls == 2, "sync.OnceValue")
		var sm sync.Map
		sm.Store("k", 1)
		v, ok := sm.Load("k")
		vfAssert(ok && v.(int) == 1, "sync.Map.Load")
		_, loaded := sm.LoadOrStore("k", 2)
		vfAssert(loaded, "sync.Map.LoadOrStore")
		sm.Delete("k")
		_, ok = sm.Load("k")
		vfAssert(!ok, "sync.Map.Delete")
	case 4: // context / time
		ctx, cancel := context.WithCancelCause(context.Background())
		cause := errors.New("why")
		cancel(cause)
		vfAssert(ctx.Err() == context.Canceled && context.Cause(ctx) == cause, "WithCancelCause")
		c2 := context.WithoutCancel(ctx)
		vfAssert(c2.Err() == nil, "WithoutCancel")
		type wkey struct{}
		dctx, dcancel := context.WithTimeout(context.WithValue(context.Background(), wkey{}, 9), time.Hour)
		wc := context.WithoutCancel(dctx)
		_, wcHas := wc.Deadline()
		vfAssert(!wcHas && wc.Value(wkey{}).(int) == 9 && wc.Done() == nil, "WithoutCancel-keeps-values-drops-deadline")
		dcancel()
		vfAssert(wc.Err() == nil && dctx.Err() != nil, "WithoutCancel-detached-from-parent-cancellation")
		c3, cancel3 := context.WithTimeout(context.Background(), time.Hour)
		_, has := c3.Deadline()
		vfAssert(has && c3.Err() == nil, "WithTimeout")
		cancel3()
		vfAssert(c3.Err() == context.Canceled, "cancel-before-deadline")
		fired := false
		stop := context.AfterFunc(c3, func() { fired = true })
		_ = stop
		_ = fired
		type key struct{}
		c4 := context.WithValue(context.Background(), key{}, 5)
		vfAssert(c4.Value(key{}).(int) == 5, "WithValue")
		tm := time.NewTimer(time.Hour)
		vfAssert(tm.Stop(), "Timer.Stop")
		d := 1500 * time.Millisecond
		vfAssert(d.Milliseconds() == 1500 && d.Seconds() == 1.5 && d.String() == "1.5s", "Duration")
		t0 := time.Now()
		vfAssert(!time.Now().Before(t0) && time.Since(t0) >= 0, "monotone-clock")
	case 5: // more slices / strings
		xs := []int{5, 1, 4}
		slices.Sort(xs)
		vfAssert(xs[0] == 1 && xs[2] == 5, "slices.Sort")
		slices.SortFunc(xs, func(a, b int) int { return b - a })
		vfAssert(xs[0] == 5, "slices.SortFunc")
		slices.Reverse(xs)
		vfAssert(xs[0] == 1, "slices.Reverse")
		xs = slices.Delete(xs, 0, 1)
		vfAssert(len(xs) == 2 && xs[0] == 4, "slices.Delete")
		xs = slices.Insert(xs, 1, 9)
		vfAssert(len(xs) == 3 && xs[1] == 9, "slices.Insert")
		vfAssert(slices.IndexFunc(xs, func(v int) bool { return v == 9 }) == 1 && slices.ContainsFunc(xs, func(v int) bool { return v > 8 }), "slices.IndexFunc")
		ys := append(xs[:1], xs[2:]...)
		vfAssert(len(ys) == 2 && ys[1] == 5, "append-delete-idiom")
		zs := make([]int, 2)
		vfAssert(copy(zs, []int{7, 8, 9}) == 2 && zs[1] == 8, "copy")
		f := strings.Fields(" a  b ")
		vfAssert(len(f) == 2 && f[1] == "b", "strings.Fields")
		sp := strings.SplitN("a,b,c", ",", 2)
		vfAssert(len(sp) == 2 && sp[1] == "b,c", "strings.SplitN")
		vfAssert(strings.ReplaceAll("a-b-c", "-", "+") == "a+b+c" && strings.Count("a-b-c", "-") == 2, "strings.ReplaceAll-Count")
		vfAssert(strings.LastIndex("/a/b", "/") == 2 && strings.LastIndexByte("/a/b", '/') == 2 && strings.IndexByte("ab", 'b') == 1, "strings.LastIndex")
		vfAssert(strings.ContainsAny("abc", "xc") && strings.ContainsRune("abc", 'b') && strings.ContainsFunc("a1", func(r rune) bool { return r < 'a' }), "strings.Contains*")
		vfAssert(strings.Compare("a", "b") < 0 && strings.ToLower(s) == strings.ToLower(strings.ToUpper(s)), "strings.Compare")
		vfAssert(strconv.Quote("a") == "\"a\"" && strconv.FormatInt(-5, 10) == "-5", "strconv.Quote-FormatInt")
		vfAssert(bytes.HasPrefix([]byte("grpc-x"), []byte("grpc-")) && bytes.Contains([]byte{1, b, 3}, []byte{b, 3}), "bytes.HasPrefix-Contains")
	case 6: // pools, conds, timers
		var pool sync.Pool
		pool.New = func() any { return new(int) }
		p1 := pool.Get().(*int)
		*p1 = 3
		pool.Put(p1)
		p2 := pool.Get().(*int)
		vfAssert(p2 != nil, "sync.Pool")
		var mu sync.Mutex
		cond := sync.NewCond(&mu)
		ready := false
		go func() {
			mu.Lock()
			ready = true
			mu.Unlock()
			cond.Broadcast()
		}()
		mu.Lock()
		for !ready {
			cond.Wait()
		}
		mu.Unlock()
		vfAssert(ready, "sync.Cond")
		done := make(chan struct{})
		t := time.AfterFunc(time.Hour, func() { close(done) })
		vfAssert(t.Stop(), "AfterFunc-Stop")
		tk := time.NewTicker(time.Second)
		tk.Stop()
		select {
		case <-done:
			vfFail("stopped-timer-fired")
		default:
		}
	}
	vfReach("checked")
}
