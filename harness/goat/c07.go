//go:build verif

package goat

import (
	"context"
	"io"

	"github.com/avos-io/goat/gen/testproto"
	"google.golang.org/grpc"
	"google.golang.org/grpc/codes"
)

// zzTap wraps a transport end and records every envelope written through it.
type zzTap struct {
	rw  RpcReadWriter
	mu  vfMutex
	log []*Rpc
}

func (t *zzTap) Read(ctx context.Context) (*Rpc, error) { return t.rw.Read(ctx) }
func (t *zzTap) Write(ctx context.Context, r *Rpc) error {
	err := t.rw.Write(ctx, r)
	if err == nil {
		t.mu.vfLock()
		t.log = append(t.log, r)
		t.mu.vfUnlock()
	}
	return err
}
func (t *zzTap) written() []*Rpc {
	t.mu.vfLock()
	defer t.mu.vfUnlock()
	return append([]*Rpc(nil), t.log...)
}

// H_C07_cancel: a streaming call whose caller context is cancelled (fault=0) or whose
// deadline expires (fault=1) at an arbitrary point (the fault goroutine/expiry races with
// everything). hmode: 0 handler blocked in RecvMsg; 1 handler waits on its context;
// 2 handler streams m messages then waits on its context (responses queue up unread);
// cprog: 0 caller only receives; 1 caller sends one message then receives; 2 caller
// half-closes then receives. A second unrelated unary call (`other`=1) must complete.
func H_C07_cancel() {
	hmode := vfParam("hmode", 0)
	cprog := vfParam("cprog", 0)
	m := vfParam("m", 1)
	fault := vfParam("fault", 0)
	other := vfParam("other", 0)
	impl := &zzImpl{}
	impl.unary = func(ctx context.Context, in *testproto.Msg) (*testproto.Msg, error) {
		return &testproto.Msg{Value: in.GetValue() + 1}, nil
	}
	var hctx context.Context
	hReturned, hStarted := false, false
	sh := func(srv any, stream grpc.ServerStream) error {
		hctx = stream.Context()
		hStarted = true
		defer func() { hReturned = true }()
		switch hmode {
		case 0:
			for {
				in := new(testproto.Msg)
				if err := stream.RecvMsg(in); err != nil {
					if err == io.EOF {
						<-stream.Context().Done()
						return stream.Context().Err()
					}
					return err
				}
			}
		case 1:
			<-stream.Context().Done()
			return stream.Context().Err()
		default:
			for i := 0; i < m; i++ {
				if err := stream.SendMsg(&testproto.Msg{Value: int32(i + 1)}); err != nil {
					return err
				}
			}
			<-stream.Context().Done()
			return stream.Context().Err()
		}
	}
	srv := zzNewServer("srv", impl, map[string]grpc.StreamHandler{"BidiStream": sh})
	tcap := vfParam("tcap", 2)
	c2s := make(chan *Rpc, tcap)
	s2c := make(chan *Rpc, tcap)
	ctap := &zzTap{rw: NewGoatOverChannel(s2c, c2s)}
	go func() { srv.Serve(context.Background(), NewGoatOverChannel(c2s, s2c)) }()
	cc := NewClientConn(ctap, "cli", "srv")
	var ctx context.Context
	var cancel context.CancelFunc
	if fault == 0 {
		ctx, cancel = context.WithCancel(context.Background())
	} else {
		vfArmTimers(true) // only the caller's deadline may expire (at any point)
		ctx, cancel = context.WithTimeout(context.Background(), 3600000000000)
		vfArmTimers(false)
	}
	done := false
	var recvErr, lateRecvErr, lateSendErr error
	cancelled := make(chan struct{})
	go func() {
		cs, err := cc.NewStream(ctx, &grpc.StreamDesc{ClientStreams: true, ServerStreams: true}, "/"+zzSvcName+"/BidiStream")
		if err != nil {
			// the context may already be done when the stream is opened
			vfAssert(ctx.Err() != nil, "open-fails-only-if-context-done")
			done = true
			return
		}
		switch cprog {
		case 1:
			cs.SendMsg(&testproto.Msg{Value: 9})
		case 2:
			cs.CloseSend()
		}
		for {
			out := new(testproto.Msg)
			if err := cs.RecvMsg(out); err != nil {
				recvErr = err
				break
			}
		}
		// what a caller may do once a receive has failed: read the trailer (and the header)
		_ = cs.Trailer()
		cs.Header()
		// after the receive has reported the end of the stream: later calls fail too
		out := new(testproto.Msg)
		lateRecvErr = cs.RecvMsg(out)
		lateSendErr = cs.SendMsg(&testproto.Msg{Value: 1})
		done = true
	}()
	if fault == 0 {
		go func() {
			cancel()
			close(cancelled)
		}()
	}
	otherDone := false
	var otherErr error
	var otherVal int32
	if other == 1 {
		go func() {
			out := new(testproto.Msg)
			otherErr = cc.Invoke(context.Background(), "/"+zzSvcName+"/Unary", &testproto.Msg{Value: 41}, out)
			otherVal = out.GetValue()
			otherDone = true
		}()
	}
	vfAtQuiescence(func() {
		vfAssert(done, "caller-returns-after-cancellation")
		if other == 1 {
			vfAssert(otherDone && otherErr == nil && otherVal == 42, "unrelated-call-completes-normally")
		}
		if !done {
			return
		}
		if hStarted {
			vfAssert(hctx.Err() != nil, "handler-context-done")
			vfAssert(hReturned, "handler-returned")
		}
		if recvErr != nil {
			want := codes.Canceled
			if fault == 1 {
				want = codes.DeadlineExceeded
			}
			vfAssert(zzCode(recvErr) == want, "receive-reports-Canceled-or-DeadlineExceeded")
			vfAssert(lateRecvErr != nil, "later-receive-fails")
			vfAssert(lateSendErr != nil, "later-send-fails")
			// exactly one reset for the stream on the wire
			resets := 0
			for _, w := range ctap.written() {
				if w.Reset_ != nil {
					resets++
					vfAssert(w.Reset_.Type == "RST_STREAM" && w.Id == 1 || other == 1, "reset-for-the-stream")
				}
			}
			vfAssert(resets == 1, "exactly-one-reset-sent")
			vfReach("cancel-observed")
		}
		vfAssert(vfCensusClient() == 0, "no-client-goroutine-left-for-the-stream")
	})
	_ = cancelled
}

// vfCensusClient counts live goat goroutines other than the connection-level ones
// (server read loop, writer, workers, mux read loop), which legitimately stay.
func vfCensusClient() int {
	l := vfCensusList()
	n := 0
	start := 0
	for i := 0; i <= len(l); i++ {
		if i == len(l) || l[i] == ';' {
			name := l[start:i]
			start = i + 1
			if zzContains(name, "clientStream") || zzContains(name, "runStream") {
				n++
			}
		}
	}
	return n
}

func zzContains(s, sub string) bool {
	for i := 0; i+len(sub) <= len(s); i++ {
		if s[i:i+len(sub)] == sub {
			return true
		}
	}
	return false
}
