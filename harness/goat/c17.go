//go:build verif

package goat

import (
	"context"
	"errors"

	"github.com/avos-io/goat/gen/goatorepo"
)

// H_C17_reject: an envelope whose header is missing, or whose claimed source differs from
// the name its connection is attached under, is not forwarded anywhere and crashes nothing.
func H_C17_reject() {
	kind := vfParam("kind", 0) // 0 header absent, 1 symbolic source (any 2 bytes), 2 empty source
	dialed := 0
	dial := func(id string) (RpcReadWriter, error) {
		dialed++
		return nil, errors.New("dial refused")
	}
	ctx, cancel := context.WithCancel(context.Background())
	defer cancel()
	p := NewProxy(ctx, "proxy", dial, nil, nil)
	attach := "p0"
	if vfParam("unnamed", 0) == 1 {
		attach = "" // a peer attached under the empty name
	}
	names := []string{attach, "p1"}
	var clients []*proxyClient
	for _, n := range names {
		c := &proxyClient{id: n, toServer: p.commands, fromServer: make(chan *goatorepo.Rpc, clientBufferSize)}
		p.clients[n] = c
		clients = append(clients, c)
	}
	var rpc *goatorepo.Rpc
	spoofed := true
	switch kind {
	case 0:
		rpc = &goatorepo.Rpc{Id: 1, Body: &goatorepo.Body{}}
	case 1:
		src := vfString("src", 2)
		spoofed = src != attach
		rpc = &goatorepo.Rpc{Id: 1, Header: &goatorepo.RequestHeader{Method: "/s/m", Source: src, Destination: "p1"}}
	default:
		rpc = &goatorepo.Rpc{Id: 1, Header: &goatorepo.RequestHeader{Method: "/s/m", Source: "", Destination: "p1"}}
	}
	if kind == 2 && attach == "" {
		spoofed = false // an empty source is what an unnamed peer honestly claims
	}
	p.forwardRpc(attach, rpc)
	if spoofed {
		vfAssert(len(clients[0].fromServer) == 0 && len(clients[1].fromServer) == 0, "spoofed-or-headerless-envelope-not-forwarded")
		vfAssert(dialed == 0 && len(p.clients) == 2, "nobody-dialled")
		vfReach("rejected")
	} else {
		vfAssert(len(clients[1].fromServer) == 1, "honest-envelope-forwarded")
		vfReach("accepted")
	}
}
