//go:build verif

package goat

import (
	"context"
	"errors"

	"github.com/avos-io/goat/gen/goatorepo"
	"github.com/avos-io/goat/gen/testproto"
	"google.golang.org/grpc"
)

// H_C20_unary_chain: a chain of n recording unary server interceptors around the real
// generated handler, driven through processUnaryRpc. Each interceptor adds a context value,
// rewrites the request (adds a symbolic delta) and the reply; one may short-circuit.
func H_C20_unary_chain() {
	n := vfParam("n", 3)
	short := vfParam("short", -1) // index of an interceptor that does not call next (-1: none)
	var trace []int
	deltas := make([]int32, n)
	var ics []grpc.UnaryServerInterceptor
	var seenInfo []*grpc.UnaryServerInfo
	for i := 0; i < n; i++ {
		i := i
		deltas[i] = vfInt32("delta")
		ics = append(ics, func(ctx context.Context, req any, info *grpc.UnaryServerInfo, handler grpc.UnaryHandler) (any, error) {
			trace = append(trace, i+1)
			seenInfo = append(seenInfo, info)
			for j := 0; j < i; j++ {
				vfAssert(ctx.Value(zzTraceKey{j}) != nil, "context-changes-of-outer-interceptors-visible")
			}
			if i == short {
				trace = append(trace, -(i + 1))
				return &testproto.Msg{Value: 1000}, nil
			}
			in := req.(*testproto.Msg)
			resp, err := handler(context.WithValue(ctx, zzTraceKey{i}, true), &testproto.Msg{Value: in.Value + deltas[i]})
			trace = append(trace, -(i + 1))
			if err != nil {
				return nil, err
			}
			return &testproto.Msg{Value: resp.(*testproto.Msg).Value + deltas[i]}, nil
		})
	}
	impl := &zzImpl{}
	var handlerSaw int32
	handlerCtxOK := true
	impl.unary = func(ctx context.Context, in *testproto.Msg) (*testproto.Msg, error) {
		trace = append(trace, 0)
		handlerSaw = in.Value
		for j := 0; j < n; j++ {
			if ctx.Value(zzTraceKey{j}) == nil {
				handlerCtxOK = false
			}
		}
		return &testproto.Msg{Value: in.Value * 2}, nil
	}
	srv := zzNewServer("srv", impl, nil, ChainUnaryInterceptor(ics...))
	h := newHandler(srv.ctx, srv, newZZConn())
	x := vfInt32("req")
	vfAssume(x > 0 && x < 1000)
	info := srv.services[zzSvcName]
	resp := h.processUnaryRpc(context.Background(), info, info.methods["Unary"], &Rpc{Id: 5, Header: zzReqHdr("Unary"), Body: &goatorepo.Body{Data: zzEnc(x)}})
	// expected trace
	var want []int
	last := n
	if short >= 0 {
		last = short + 1
	}
	for i := 1; i <= last; i++ {
		want = append(want, i)
	}
	if short < 0 {
		want = append(want, 0)
	}
	for i := last; i >= 1; i-- {
		want = append(want, -i)
	}
	vfAssert(len(trace) == len(want), "each-interceptor-entered-and-left-exactly-once")
	for i := 0; i < len(trace) && i < len(want); i++ {
		vfAssert(trace[i] == want[i], "interceptors-run-in-registration-order-around-the-handler")
	}
	for _, inf := range seenInfo {
		vfAssert(inf != nil && inf.FullMethod == "/"+zzSvcName+"/Unary" && inf == seenInfo[0], "info-is-the-one-passed-in")
	}
	vfAssert(resp != nil && resp.Status == nil && resp.Body != nil, "reply-produced")
	if short < 0 {
		sum := int32(0)
		for _, d := range deltas {
			sum += d
		}
		vfAssert(impl.ncalls == 1, "handler-invoked-exactly-once")
		vfAssert(handlerSaw == x+sum, "handler-sees-all-request-rewrites")
		vfAssert(handlerCtxOK, "handler-sees-all-context-changes")
		got := zzDec(resp.Body.Data)
		vfAssert(got == (x+sum)*2+sum, "peer-sees-all-reply-rewrites")
	} else {
		vfAssert(impl.ncalls == 0, "handler-not-invoked-after-short-circuit")
	}
	vfReach("checked")
}

// H_C20_stream_chain: n stream interceptors around a stream handler (direct call of the
// chained interceptor as runStream does).
func H_C20_stream_chain() {
	n := vfParam("n", 3)
	var trace []int
	var ics []grpc.StreamServerInterceptor
	for i := 0; i < n; i++ {
		i := i
		ics = append(ics, func(srv any, ss grpc.ServerStream, info *grpc.StreamServerInfo, handler grpc.StreamHandler) error {
			trace = append(trace, i+1)
			err := handler(srv, ss)
			trace = append(trace, -(i + 1))
			return err
		})
	}
	srv := zzNewServer("srv", &zzImpl{}, nil, ChainStreamInterceptor(ics...))
	sentinel := errors.New("handler result")
	final := func(srv any, ss grpc.ServerStream) error {
		trace = append(trace, 0)
		return sentinel
	}
	info := &grpc.StreamServerInfo{FullMethod: "/x/y"}
	err := srv.streamInterceptor(nil, nil, info, final)
	vfAssert(err == sentinel, "handler-error-propagates-unchanged")
	vfAssert(len(trace) == 2*n+1, "each-interceptor-once")
	for i := 0; i < n && i < len(trace); i++ {
		vfAssert(trace[i] == i+1, "entered-in-registration-order")
	}
	if len(trace) == 2*n+1 {
		vfAssert(trace[n] == 0, "handler-in-the-middle")
		for i := 0; i < n; i++ {
			vfAssert(trace[n+1+i] == -(n-i), "left-in-reverse-order")
		}
	}
	vfReach("checked")
}
