//go:build verif

package goat

import (
	"context"
)

// zzConn is the scripted transport of goat-package harnesses: reads deliver what a peer
// goroutine feeds (or the injected error), writes are logged (and may fail).
type zzConn struct {
	in        chan *Rpc
	rerr      chan error
	mu        vfMutex
	out       []*Rpc
	failWrite error
	failAfter int // when >0: the failAfter-th write (1-based) and later ones fail
	nwrites   int
	wch       chan *Rpc
	ignoreCtx bool
}

func newZZConn() *zzConn {
	return &zzConn{in: make(chan *Rpc), rerr: make(chan error)}
}

func (c *zzConn) Read(ctx context.Context) (*Rpc, error) {
	select {
	case r := <-c.in:
		return r, nil
	case e := <-c.rerr:
		return nil, e
	case <-ctx.Done():
		return nil, ctx.Err()
	}
}

func (c *zzConn) Write(ctx context.Context, rpc *Rpc) error {
	c.mu.vfLock()
	c.nwrites++
	if c.failWrite != nil && (c.failAfter == 0 || c.nwrites >= c.failAfter) {
		err := c.failWrite
		c.mu.vfUnlock()
		return err
	}
	c.out = append(c.out, rpc)
	c.mu.vfUnlock()
	if c.wch != nil {
		c.wch <- rpc
	}
	return nil
}

func (c *zzConn) written() []*Rpc {
	c.mu.vfLock()
	defer c.mu.vfUnlock()
	return append([]*Rpc(nil), c.out...)
}

func zzReqHdr(method string) *RpcHeader {
	return &RpcHeader{Method: "/" + zzSvcName + "/" + method, Source: "cli", Destination: "srv"}
}
