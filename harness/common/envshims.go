//go:build verif

package common

// Environment stubs (network libraries). The engine redirects the real functions to
// these; harnesses in package goat steer them through internal.VfEnv.

import (
	"context"
	"errors"
	"net/http"

	"github.com/coder/websocket"
)

type VfEnvT struct {
	// websocket
	WsReadType  websocket.MessageType
	WsReadData  []byte
	WsReadErr   error
	WsWriteErr  error
	WsWrites    [][]byte
	WsWriteType []websocket.MessageType
	// http client
	HttpDoErr  error
	HttpReqs   int
	HttpNewErr error
}

var VfEnv = &VfEnvT{}

func vfWsRead(c *websocket.Conn, ctx context.Context) (websocket.MessageType, []byte, error) {
	if VfEnv.WsReadErr != nil {
		return 0, nil, VfEnv.WsReadErr
	}
	return VfEnv.WsReadType, VfEnv.WsReadData, nil
}

func vfWsWrite(c *websocket.Conn, ctx context.Context, typ websocket.MessageType, p []byte) error {
	if VfEnv.WsWriteErr != nil {
		return VfEnv.WsWriteErr
	}
	VfEnv.WsWrites = append(VfEnv.WsWrites, p)
	VfEnv.WsWriteType = append(VfEnv.WsWriteType, typ)
	return nil
}

func vfHttpError(w http.ResponseWriter, msg string, code int) { w.WriteHeader(code) }

type vfNopBody struct{}

func (vfNopBody) Read(p []byte) (int, error) { return 0, errors.New("EOF") }
func (vfNopBody) Close() error               { return nil }

func vfHttpNewRequest(method, url string, body any) (*http.Request, error) {
	if VfEnv.HttpNewErr != nil {
		return nil, VfEnv.HttpNewErr
	}
	return &http.Request{Method: method, Header: http.Header{}}, nil
}

func vfHttpHeaderAdd(h http.Header, key, value string) {}

func vfHttpDo(c *http.Client, r *http.Request) (*http.Response, error) {
	VfEnv.HttpReqs++
	if VfEnv.HttpDoErr != nil {
		return nil, VfEnv.HttpDoErr
	}
	return &http.Response{StatusCode: 200, Body: vfNopBody{}}, nil
}
