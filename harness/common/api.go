//go:build verif

package common

// Harness API. The symbolic engine (goatsym) intercepts every vf* function by name;
// the bodies below are the NATIVE semantics used when a counterexample is replayed
// against the compiled code (values come from the file named by $VF_REPLAY).

import (
	"encoding/json"
	"fmt"
	"os"
	"reflect"
	"runtime"
	"strconv"
	"strings"
	"sync"
	"unsafe"
)

type vfNondetRec struct {
	Name  string `json:"name"`
	Width int    `json:"width"`
	Value uint64 `json:"value"`
}
type vfTrailRec struct {
	Kind   string `json:"kind"`
	Choice int    `json:"choice"`
	Info   string `json:"info"`
}
type vfCex struct {
	Nondet []vfNondetRec `json:"nondet"`
	Trail  []vfTrailRec  `json:"trail"`
}

type vfAssertFailure struct{ Label string }
type vfAssumeFailure struct{}

var vfState struct {
	sync.Mutex
	loaded  bool
	vals    map[string][]uint64 // label -> values in order
	choices map[string][]int
	params  map[string]int
	quiesce []func()
	reached map[string]int
}

func vfLoad() {
	if vfState.loaded {
		return
	}
	vfState.loaded = true
	vfState.vals = map[string][]uint64{}
	vfState.choices = map[string][]int{}
	vfState.params = map[string]int{}
	vfState.reached = map[string]int{}
	for _, kv := range strings.Split(os.Getenv("VF_PARAMS"), ",") {
		p := strings.SplitN(kv, "=", 2)
		if len(p) == 2 {
			v, _ := strconv.Atoi(p[1])
			vfState.params[p[0]] = v
		}
	}
	path := os.Getenv("VF_REPLAY")
	if path == "" {
		return
	}
	b, err := os.ReadFile(path)
	if err != nil {
		panic(err)
	}
	var c vfCex
	if err := json.Unmarshal(b, &c); err != nil {
		panic(err)
	}
	for _, n := range c.Nondet {
		l := n.Name
		if i := strings.LastIndex(l, "@"); i >= 0 {
			l = l[:i]
		}
		vfState.vals[l] = append(vfState.vals[l], n.Value)
	}
	for _, t := range c.Trail {
		if t.Kind == "choice" {
			vfState.choices[t.Info] = append(vfState.choices[t.Info], t.Choice)
		}
	}
}

func vfNext(label string) uint64 {
	vfState.Lock()
	defer vfState.Unlock()
	vfLoad()
	q := vfState.vals[label]
	if len(q) == 0 {
		return 0
	}
	vfState.vals[label] = q[1:]
	return q[0]
}

func vfBool(label string) bool     { return vfNext(label) != 0 }
func vfByte(label string) byte     { return byte(vfNext(label)) }
func vfInt32(label string) int32   { return int32(vfNext(label)) }
func vfInt64(label string) int64   { return int64(vfNext(label)) }
func vfUint64(label string) uint64 { return vfNext(label) }

func vfString(label string, n int) string {
	b := make([]byte, n)
	for i := range b {
		b[i] = byte(vfNext(label))
	}
	return string(b)
}

func vfBytes(label string, n int) []byte {
	b := make([]byte, n)
	for i := range b {
		b[i] = byte(vfNext(label))
	}
	return b
}

func vfChoice(label string, n int) int {
	vfState.Lock()
	defer vfState.Unlock()
	vfLoad()
	q := vfState.choices[label]
	if len(q) == 0 {
		return 0
	}
	vfState.choices[label] = q[1:]
	if q[0] >= n {
		return n - 1
	}
	return q[0]
}

func vfAssume(c bool) {
	if !c {
		panic(vfAssumeFailure{})
	}
}

func vfAssert(c bool, label string) {
	if !c {
		panic(vfAssertFailure{label})
	}
}

func vfFail(label string) { panic(vfAssertFailure{label}) }

func vfReach(label string) {
	vfState.Lock()
	defer vfState.Unlock()
	vfLoad()
	vfState.reached[label]++
}

func vfParam(name string, def int) int {
	vfState.Lock()
	defer vfState.Unlock()
	vfLoad()
	if v, ok := vfState.params[name]; ok {
		return v
	}
	return def
}

func vfAtQuiescence(f func()) {
	vfState.Lock()
	defer vfState.Unlock()
	vfState.quiesce = append(vfState.quiesce, f)
}

func vfRunQuiescence() {
	vfState.Lock()
	q := vfState.quiesce
	vfState.quiesce = nil
	vfState.Unlock()
	for _, f := range q {
		f()
	}
}

func vfYield()                { runtime.Gosched() }
func vfCensus() int           { return 0 }
func vfCensusList() string    { return "" }
func vfHarnessGoroutine()     {}
func vfArmTimers(on bool)     {}
func vfNote(s string)         {}
func vfItoa(x int64) string   { return strconv.FormatInt(x, 10) }
func vfIfaceEq(a, b any) bool { return a == b }
func vfIsSymbolic() bool      { return false }
func vfOrderedMaps(b bool)    {}
func vfTypeName(x any) string { return fmt.Sprintf("%T", x) }
func vfAsAssign(err error, target any) bool {
	panic("vfAsAssign is engine-only")
}

// vfReplayMain runs a harness natively and reports the outcome in the format the
// engine's replay driver parses.
func vfReplayMain(h func()) (outcome string) {
	defer func() {
		if r := recover(); r != nil {
			switch x := r.(type) {
			case vfAssertFailure:
				outcome = "ASSERT " + x.Label
			case vfAssumeFailure:
				outcome = "ASSUME-FAILED"
			default:
				outcome = fmt.Sprintf("PANIC %v", r)
			}
		}
	}()
	h()
	vfRunQuiescence()
	return "OK"
}

// vfMutex protects harness-side recorders. Natively it is a real mutex; the engine
// treats Lock/Unlock as no-ops: harness critical sections contain no visible
// operation, so they are atomic under the engine's transition semantics anyway.
type vfMutex struct{ mu sync.Mutex }

func (m *vfMutex) vfLock()   { m.mu.Lock() }
func (m *vfMutex) vfUnlock() { m.mu.Unlock() }

// vfFreezeClock(true): until unfrozen, time.Now() keeps returning the last instant
// (engine only; natively a no-op). Used to pin the instant a callee observes.
func vfFreezeClock(on bool) {}

// vfFieldLen returns the length of the map/slice/chan reached from pointer x through the
// named (possibly unexported) fields.
func vfFieldLen(x any, path string) int {
	v, ok := vfPeekPath(x, path)
	if !ok {
		return -1
	}
	switch v.Kind() {
	case reflect.Map, reflect.Slice, reflect.Chan:
		return v.Len()
	}
	return -1
}

// vfSliceLenAny / vfSliceSwapAny: length of, and element swap in, a slice passed as any.
func vfSliceLenAny(x any) int { return reflect.ValueOf(x).Len() }
func vfSliceSwapAny(x any, i, j int) {
	reflect.Swapper(x)(i, j)
}

// vfHeapFieldLen (engine only): sum of len(field) over every allocated struct of the named type;
// -1 when there is none (natively always -1: callers skip the assertion).
func vfHeapFieldLen(typeName, path string) int { return -1 }

// vfPeekPath follows named (possibly unexported) fields; ok is false when a name does not exist
// on this tree (internals renamed): callers then skip the assertion that needed it.
func vfPeekPath(x any, path string) (reflect.Value, bool) {
	v := reflect.ValueOf(x)
	for _, name := range strings.Split(path, ".") {
		for v.Kind() == reflect.Ptr || v.Kind() == reflect.Interface {
			if v.IsNil() {
				return v, false
			}
			v = v.Elem()
		}
		if v.Kind() != reflect.Struct {
			return v, false
		}
		v = v.FieldByName(name)
		if !v.IsValid() {
			return v, false
		}
	}
	for v.Kind() == reflect.Ptr || v.Kind() == reflect.Interface {
		if v.IsNil() {
			return v, false
		}
		v = v.Elem()
	}
	return v, true
}

// vfMapHas: does the internal map reached by path hold key? -1 when the names do not resolve.
func vfMapHas(x any, path string, key string) int {
	v, ok := vfPeekPath(x, path)
	if !ok || v.Kind() != reflect.Map || v.Type().Key().Kind() != reflect.String {
		return -1
	}
	if v.MapIndex(reflect.ValueOf(key).Convert(v.Type().Key())).IsValid() {
		return 1
	}
	return 0
}

// vfMapFieldIs: is map[key].field (through one pointer) identical to want? -1 when the names do
// not resolve on this tree.
func vfMapFieldIs(x any, path string, key string, field string, want any) int {
	v, ok := vfPeekPath(x, path)
	if !ok || v.Kind() != reflect.Map || v.Type().Key().Kind() != reflect.String {
		return -1
	}
	et := v.Type().Elem()
	if et.Kind() == reflect.Ptr {
		et = et.Elem()
	}
	if et.Kind() != reflect.Struct {
		return -1
	}
	if _, ok := et.FieldByName(field); !ok {
		return -1
	}
	e := v.MapIndex(reflect.ValueOf(key).Convert(v.Type().Key()))
	if !e.IsValid() {
		return 0
	}
	if e.Kind() == reflect.Ptr {
		if e.IsNil() {
			return 0
		}
		e = e.Elem()
	}
	f := e.FieldByName(field)
	f = reflect.NewAt(f.Type(), unsafe.Pointer(f.UnsafeAddr())).Elem()
	if f.Interface() == want {
		return 1
	}
	return 0
}

func vfFieldAddr(x any, path string) (reflect.Value, bool) {
	v := reflect.ValueOf(x)
	for _, name := range strings.Split(path, ".") {
		for v.Kind() == reflect.Ptr || v.Kind() == reflect.Interface {
			v = v.Elem()
		}
		if v.Kind() != reflect.Struct {
			return v, false
		}
		v = v.FieldByName(name)
		if !v.IsValid() {
			return v, false
		}
	}
	if v.Kind() == reflect.Struct {
		v = v.FieldByName("v") // sync/atomic typed integers
		if !v.IsValid() {
			return v, false
		}
	}
	if !v.CanInt() && !v.CanUint() {
		return v, false
	}
	return reflect.NewAt(v.Type(), unsafe.Pointer(v.UnsafeAddr())).Elem(), true
}

// vfFieldGetUint / vfFieldSetUint read and write an integer field (plain or sync/atomic typed)
// reached from pointer x through named, possibly unexported, fields.
func vfFieldGetUint(x any, path string) uint64 {
	v, ok := vfFieldAddr(x, path)
	if !ok {
		return 0
	}
	if v.CanUint() {
		return v.Uint()
	}
	return uint64(v.Int())
}

func vfFieldSetUint(x any, path string, val uint64) bool {
	v, ok := vfFieldAddr(x, path)
	if !ok {
		return false
	}
	if v.CanUint() {
		v.SetUint(val)
	} else {
		v.SetInt(int64(val))
	}
	return true
}
