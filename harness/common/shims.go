//go:build verif

package common

// Go-source models ("shims") of library functions; the engine redirects the real
// functions to these and executes them symbolically like any other code. Natively
// (replay) they are unused: the real library functions run.

import (
	"errors"

	"github.com/avos-io/goat/gen/testproto"
	"google.golang.org/grpc/codes"
	"google.golang.org/grpc/encoding"
	"google.golang.org/grpc/mem"
	"google.golang.org/grpc/status"
)

type vfWrapError struct {
	msg string
	err error
}

func (w *vfWrapError) Error() string { return w.msg }
func (w *vfWrapError) Unwrap() error { return w.err }

func vfFormatArg(verb byte, a any) string {
	switch x := a.(type) {
	case nil:
		return "<nil>"
	case string:
		if verb == 'q' {
			return "\"" + x + "\""
		}
		return x
	case error:
		return x.Error()
	case interface{ String() string }:
		return x.String()
	case int:
		return vfItoa(int64(x))
	case int64:
		return vfItoa(x)
	case int32:
		return vfItoa(int64(x))
	case uint64:
		return vfItoa(int64(x))
	case uint32:
		return vfItoa(int64(x))
	case uint:
		return vfItoa(int64(x))
	case bool:
		if x {
			return "true"
		}
		return "false"
	case []byte:
		return string(x)
	}
	return "?"
}

func vfSprintf(format string, args ...any) string {
	out := ""
	ai := 0
	i := 0
	start := 0
	for i < len(format) {
		if format[i] != '%' {
			i++
			continue
		}
		out += format[start:i]
		i++
		if i >= len(format) {
			break
		}
		v := format[i]
		i++
		start = i
		if v == '%' {
			out += "%"
			continue
		}
		if ai < len(args) {
			out += vfFormatArg(v, args[ai])
			ai++
		} else {
			out += "%!" + string(v) + "(MISSING)"
		}
	}
	out += format[start:]
	return out
}

func vfSprint(args ...any) string {
	out := ""
	for _, a := range args {
		out += vfFormatArg('v', a)
	}
	return out
}

func vfErrorf(format string, args ...any) error {
	msg := vfSprintf(format, args...)
	// %w: wrap the first error operand
	wraps := false
	for i := 0; i+1 < len(format); i++ {
		if format[i] == '%' && format[i+1] == 'w' {
			wraps = true
		}
	}
	if wraps {
		for _, a := range args {
			if e, ok := a.(error); ok {
				return &vfWrapError{msg, e}
			}
		}
	}
	return errors.New(msg)
}

func vfStatusErrorf(c codes.Code, format string, a ...any) error {
	return status.Error(c, vfSprintf(format, a...))
}

func vfErrorsIs(err, target error) bool {
	if err == nil || target == nil {
		return vfIfaceEq(err, target)
	}
	for {
		if vfIfaceEq(err, target) {
			return true
		}
		if x, ok := err.(interface{ Is(error) bool }); ok && x.Is(target) {
			return true
		}
		switch x := err.(type) {
		case interface{ Unwrap() error }:
			err = x.Unwrap()
			if err == nil {
				return false
			}
		case interface{ Unwrap() []error }:
			for _, e := range x.Unwrap() {
				if vfErrorsIs(e, target) {
					return true
				}
			}
			return false
		default:
			return false
		}
	}
}

func vfErrorsAs(err error, target any) bool {
	for err != nil {
		if vfAsAssign(err, target) {
			return true
		}
		if x, ok := err.(interface{ As(any) bool }); ok && x.As(target) {
			return true
		}
		u, ok := err.(interface{ Unwrap() error })
		if !ok {
			return false
		}
		err = u.Unwrap()
	}
	return false
}

// vfCodec models the protobuf codec for *testproto.Msg: an injective encoding of
// Value (zero value <-> empty encoding, as proto3 does).
type vfCodec struct{}

func (vfCodec) Name() string { return "proto" }

func (vfCodec) Marshal(v any) (mem.BufferSlice, error) {
	m, ok := v.(*testproto.Msg)
	if !ok {
		return nil, errors.New("vfCodec: unsupported message type")
	}
	if m == nil || m.Value == 0 {
		return mem.BufferSlice{mem.SliceBuffer(nil)}, nil
	}
	x := uint32(m.Value)
	b := []byte{8, byte(x), byte(x >> 8), byte(x >> 16), byte(x >> 24)}
	return mem.BufferSlice{mem.SliceBuffer(b)}, nil
}

func (vfCodec) Unmarshal(data mem.BufferSlice, v any) error {
	m, ok := v.(*testproto.Msg)
	if !ok {
		return errors.New("vfCodec: unsupported message type")
	}
	b := data.Materialize()
	if len(b) == 0 {
		m.Value = 0
		return nil
	}
	if len(b) != 5 || b[0] != 8 {
		return errors.New("vfCodec: cannot parse")
	}
	x := uint32(b[1]) | uint32(b[2])<<8 | uint32(b[3])<<16 | uint32(b[4])<<24
	if x == 0 {
		return errors.New("vfCodec: non-canonical zero")
	}
	m.Value = int32(x)
	return nil
}

func vfGetCodecV2(name string) encoding.CodecV2 { return vfCodec{} }

// vfSortSlice replaces sort.Slice / sort.SliceStable (which go through reflection): a stable
// insertion sort driven by the caller's less function.
func vfSortSlice(x any, less func(i, j int) bool) {
	n := vfSliceLenAny(x)
	for i := 1; i < n; i++ {
		for j := i; j > 0 && less(j, j-1); j-- {
			vfSliceSwapAny(x, j, j-1)
		}
	}
}
