#!/usr/bin/env python3
# Generates MANIFEST.json from harness/properties.json and manifest_meta.json.
import json, os
here = os.path.dirname(os.path.abspath(__file__))
specs = json.load(open(os.path.join(here, 'harness/properties.json')))
meta = json.load(open(os.path.join(here, 'manifest_meta.json')))
props = [json.loads(l) for l in open(os.path.join(here, 'properties.jsonl'))]
checks, na = [], []
for p in props:
    pid = p['id']
    m = meta.get(pid, {})
    if pid in specs and m.get('claimed'):
        c = {
            "property_id": pid,
            "quick_cmd": "./check %s quick" % pid,
            "evidence_file": "/verif/evidence/%s.json" % pid,
            "replay_cmd_template": "bin/goatsym replay {path}",
            "engine": "goatsym",
            "level_claimed": {"category": "model_checking", "text": m['level_text'], "design_ref": m.get('design_ref', 'DESIGN.md section 5 ' + pid)},
            # trusted-base text from the meta file + the bounds text of the registered jobs (kept in one place)
            "level_note": m['level_note'].split(" Bounds:")[0] + " Bounds: " + specs[pid]['bounds'] + ("; assumptions: " + "; ".join(specs[pid].get('assumptions', [])) if specs[pid].get('assumptions') else ""),
            "technique": m.get('technique', "bounded symbolic execution of the real Go SSA (own engine goatsym), SMT-decided (z3/cvc5) path conditions and assertions, symbolic scheduler"),
        }
        if specs[pid].get('thorough'):
            c["thorough_cmd"] = "./check %s thorough" % pid
        checks.append(c)
    else:
        na.append({"property_id": pid, "reason": m.get('na_reason', 'check not built yet in this round (work in progress)')})
man = {
    "version": 1,
    "setup_cmd": "./setup.sh",
    "hooks": {
        "guard": "verif",
        "enable": "harness files live in /verif/harness and are injected into goat's packages through a go/packages overlay (engine) or go test -overlay (native replay) with -tags verif; /repo contains no hook code",
        "baseline_off_cmd": "cd /repo && go test -vet=off -count=1 -timeout 25m ./...",
        "source_commits": [],
        "add_only": True,
    },
    "engines": [{"name": "goatsym", "path": "/verif/goatsym", "serves_properties": [c['property_id'] for c in checks],
                 "kind_free_text": "symbolic executor for Go SSA (go/ssa v0.29.0) with symbolic scheduler; SMT back ends z3 4.8.12 (incremental), cvc5 1.0 (--solve-bv-as-int=sum), z3 5.1.0"}],
    "checks": checks,
    "not_applicable": na,
    "notes": meta.get('_notes', ''),
}
json.dump(man, open(os.path.join(here, 'MANIFEST.json'), 'w'), indent=1)
print("claimed:", [c['property_id'] for c in checks])
